"""Native replay for C08/C11/C20: the real parser on malformed / truncated / split inputs."""
import sys, json, os, tempfile, shutil, random
from fcp.parser import get_fcp_from_string, get_fcp
from fcp.error import Logger

GOOD = ('version: "3"\n/* c */\nenum E { A = 0, B = 1, }\nstruct I { a @0: u3, e @1: E, }\n'
        'struct S { x @0: u8 | unit("m") range(0.0, 1.0), i @1: I, arr @2: [I, 2], d @3: [u5], o @4: Optional[str], }\n'
        'impl can for S as SS { id: 10, signal x { endianess: "big", }, }\nservice Svc @0 { method m(S) @0 returns I, }\n'
        'device dev { services: [Svc], }\n')
BAD = ['', 'version', 'version: "2"\n', 'version: "3"\nstruct A { x @0: Unknown, }\n', 'version: "3"\nstruct A { x @1.5: u8, }\n',
       'version: "3"\nenum E { }\n', 'version: "3"\nenum E { A = "s", }\n', 'version: "3"\nstruct A { x @0: u8 | range(1), }\n',
       'version: "3"\nstruct A { x @0: u8 | unit(), }\n', 'version: "3"\nstruct A { x @0: u8 | foo(1), }\n',
       'version: "3"\nstruct A { x @0: [B, 2], }\nstruct B { y @0: u8, }\n', 'version: "3"\nstruct A { x @0: Optional[[Nope]], }\n',
       'version: "3"\nmod nothere;\n', 'version: "3"\nservice S @1.5 { method m(A) @0 returns A, }\n', '\x00\xff', 'version: "3"\nstruct A { x @0: u8, } }']


def one(text):
    lg = Logger({})
    try:
        r = get_fcp_from_string(text, lg)
    except BaseException as e:
        return {"input": text, "check": "an exception escaped get_fcp_from_string", "observed": type(e).__name__ + ": " + str(e)[:200]}
    if not (r.is_ok() or r.is_err()):
        return {"input": text, "check": "result is neither Ok nor Err", "observed": repr(r)[:100]}
    if r.is_err():
        try:
            s = lg.error(r.err())
        except BaseException as e:
            return {"input": text, "check": "the error value cannot be rendered", "observed": type(e).__name__ + ": " + str(e)[:200]}
        for msg, node, _ in r.err().msg:
            if node is not None:
                lines = text.split("\n")
                if not (1 <= node.meta.line <= len(lines)):
                    return {"input": text, "check": "diagnostic cites a line that does not exist", "observed": node.meta.line}
        # C08: an unresolved type reference names the type
        if "Unknown" in text and "Unknown" not in s:
            return {"input": text, "check": "resolution error does not name the type", "observed": s[:200]}
    return None


def dangling(fcp):
    """C08: every user-type reference of an accepted schema resolves to a declaration of the kind it is tagged with"""
    from fcp.specs.type import StructType, EnumType
    def walk(t):
        if isinstance(t, StructType):
            return None if fcp.get_struct(t.name).is_some() else f"StructType({t.name}) has no struct"
        if isinstance(t, EnumType):
            return None if fcp.get_enum(t.name).is_some() else f"EnumType({t.name}) has no enum"
        u = getattr(t, "underlying_type", None)
        return walk(u) if u is not None else None
    for s in fcp.structs:
        for f in s.fields:
            w = walk(f.type)
            if w:
                return f"{s.name}.{f.name}: {w}"
    return None


def clash_check():
    """C08/C20: a module whose enum has the name of a struct of the importer (and uses it) keeps its references resolvable"""
    d = tempfile.mkdtemp(prefix="c08_")
    try:
        os.makedirs(os.path.join(d, "sub"))
        open(os.path.join(d, "sub", "m.fcp"), "w").write('version: "3"\nenum A { X = 0, Y = 1, }\nstruct M { a @0: A, o @1: Optional[[A, 2]], }\n')
        open(os.path.join(d, "root.fcp"), "w").write('version: "3"\nstruct A { x @0: u8, }\nmod sub.m;\n')
        r = get_fcp(os.path.join(d, "root.fcp"), Logger({}))
        if r.is_ok():
            w = dangling(r.unwrap())
            if w:
                return {"check": "accepted schema (importer struct A, module enum A) has an unresolved reference", "observed": w, "scenario": "clash"}
        # a forward reference inside a module: the error must name the type
        open(os.path.join(d, "sub", "m.fcp"), "w").write('version: "3"\nstruct Inner { o @0: Optional[[Later, 2]], }\nstruct Later { y @0: u8, }\n')
        open(os.path.join(d, "root.fcp"), "w").write('version: "3"\nmod sub.m;\n')
        lg = Logger({})
        r = get_fcp(os.path.join(d, "root.fcp"), lg)
        if r.is_ok():
            return {"check": "forward reference inside a module accepted", "scenario": "clash"}
        s = lg.error(r.err())
        if "Later" not in s:
            return {"check": "resolution error inside a module does not name the type", "observed": s[:300], "scenario": "clash"}
        # C11 (fixed F24): a module that imports another module with the same file name; a later error in the outer one is rendered
        os.makedirs(os.path.join(d, "sub", "x"))
        open(os.path.join(d, "sub", "m.fcp"), "w").write('version: "3"\nmod x.m;\nstruct P { a @0: u8, }\nstruct Q { b @0: u8, }\nstruct R { c @0: Nope, }\n')
        open(os.path.join(d, "sub", "x", "m.fcp"), "w").write('version: "3"\nstruct Z { z @0: u8, }')
        open(os.path.join(d, "root.fcp"), "w").write('version: "3"\nmod sub.m;\n')
        lg = Logger({})
        r = get_fcp(os.path.join(d, "root.fcp"), lg)
        if r.is_ok():
            return {"check": "unknown type inside a module accepted", "scenario": "clash"}
        try:
            s = lg.error(r.err())
        except BaseException as e:
            return {"check": "the error value cannot be rendered (two source files named m.fcp)", "observed": type(e).__name__ + ": " + str(e)[:200],
                    "scenario": "clash"}
        if "struct R { c @0: Nope, }" not in s:
            return {"check": "diagnostic cites a line of the wrong source file", "observed": s[:300], "scenario": "clash"}
        f = relpath_check(d)
        if f:
            return f
    except BaseException as e:
        return {"check": "an exception escaped", "observed": type(e).__name__ + ": " + str(e)[:200], "scenario": "clash"}
    finally:
        shutil.rmtree(d, ignore_errors=True)
    return None


def _render(root, expect_line):
    lg = Logger({})
    r = get_fcp(root, lg)
    if r.is_ok():
        return "schema with an error accepted"
    try:
        s = lg.error(r.err())
    except BaseException as e:
        return "the error value cannot be rendered: " + type(e).__name__ + ": " + str(e)[:200]
    if expect_line not in s:
        return "diagnostic does not cite the line of the named file: " + s[-300:]
    return None


def relpath_check(d):
    """C11: schemas named by paths relative to the current directory (as on the command line), modules sharing a file name"""
    cwd = os.getcwd()
    os.chdir(d)
    try:
        # (fixed F25) root given by a bare name, importing a module with the same file name
        os.makedirs("y")
        open("main.fcp", "w").write('version: "3"\nmod y.main;\n\nstruct Top {\n    x @0: u8,\n    w @1: Missing,\n}\n')
        open(os.path.join("y", "main.fcp"), "w").write('version: "3"\nenum K { A = 0, }\n')
        w = _render("main.fcp", "w @1: Missing,")
        if w:
            return {"check": "root `main.fcp` importing y/main.fcp: " + w, "scenario": "clash"}
        # root in a sub-directory of the cwd; two modules named common.fcp, the first truncated, the second shorter
        for sub in ("proj/a", "proj/b"):
            os.makedirs(sub)
        open("proj/a/common.fcp", "w").write('version: "3"\n\nenum Mode {\n    Off = 0,\n    On = 1,\n}\nstruct Broken {')
        open("proj/b/common.fcp", "w").write('version: "3"\nenum Kind { K = 0, }\n')
        open("proj/b/main.fcp", "w").write('version: "3"\nenum Kind2 { K = 0, }\n')
        open("proj/main.fcp", "w").write('version: "3"\nmod b.common;\nmod a.common;\n')
        w = _render("proj/main.fcp", "struct Broken {")
        if w:
            return {"check": "proj/main.fcp importing b/common.fcp then truncated a/common.fcp: " + w, "scenario": "clash"}
        open("proj/main.fcp", "w").write('version: "3"\nmod b.main;\n\nstruct Top {\n    x @0: u8,\n    w @1: Missing,\n}\n')
        w = _render("proj/main.fcp", "w @1: Missing,")
        if w:
            return {"check": "proj/main.fcp importing b/main.fcp, error on line 6 of the root: " + w, "scenario": "clash"}
    finally:
        os.chdir(cwd)
    return None


def history_check():
    """C08 over a history: the verdict on a schema does not depend on what the same process parsed before"""
    seq = [('version: "3"\nstruct Status { a @0: u8, }\nstruct T { s @0: Status, o @1: Optional[[Status, 2]], }\n', "ok", None),
           ('version: "3"\nstruct Telemetry { s @0: Optional[[Status]], }\n', "err", "Status"),
           ('version: "3"\nenum Status { A = 0, B = 1, }\nstruct U { a @0: [Status, 2], }\n', "ok", None),
           ('version: "3"\nstruct V { a @0: Status, }\nenum Status { A = 0, }\n', "err", "Status"),
           ('version: "3"\nenum T { A = 0, }\nstruct W { a @0: [T], }\n', "ok", None)]
    for text, want, name in seq:
        lg = Logger({})
        try:
            r = get_fcp_from_string(text, lg)
        except BaseException as e:
            return {"check": "an exception escaped (sequence of parses in one process)", "observed": type(e).__name__, "scenario": "history", "text": text}
        if want == "ok":
            if not r.is_ok():
                return {"check": "valid schema rejected after earlier parses in the same process", "scenario": "history", "text": text}
            w = dangling(r.unwrap())
            if w:
                return {"check": "accepted schema has an unresolved or mis-kinded reference after earlier parses in the same process",
                        "observed": w, "scenario": "history", "text": text}
        else:
            if r.is_ok():
                return {"check": "reference to an undeclared type accepted after an earlier parse declared that name", "scenario": "history",
                        "text": text}
            if name not in lg.error(r.err()):
                return {"check": "resolution error does not name the type", "scenario": "history", "text": text}
    return None


def split_check():
    """C20: moving declarations into a module yields the same schema; errors name the module / file"""
    d = tempfile.mkdtemp(prefix="c20_")
    try:
        os.makedirs(os.path.join(d, "sub"))
        mod = 'version: "3"\nenum E { A = 0, B = 1, }\nstruct I { a @0: u3, e @1: E, }\nservice Svc @0 { method m(I) @0 returns I, }\ndevice dev { services: [Svc], }\n'
        root = 'version: "3"\nmod sub.m;\nstruct S { i @0: I, }\n'
        single = 'version: "3"\nenum E { A = 0, B = 1, }\nstruct I { a @0: u3, e @1: E, }\nservice Svc @0 { method m(I) @0 returns I, }\ndevice dev { services: [Svc], }\nstruct S { i @0: I, }\n'
        open(os.path.join(d, "sub", "m.fcp"), "w").write(mod)
        open(os.path.join(d, "root.fcp"), "w").write(root)
        open(os.path.join(d, "single.fcp"), "w").write(single)
        a = get_fcp(os.path.join(d, "root.fcp"), Logger({}))
        b = get_fcp(os.path.join(d, "single.fcp"), Logger({}))
        if a.is_err() or b.is_err() or a.unwrap().to_dict() != b.unwrap().to_dict():
            return {"check": "split schema differs from the single-file schema", "split": repr(a)[:300], "single": repr(b)[:300]}
        open(os.path.join(d, "sub", "m.fcp"), "w").write('version: "3"\nstruct I { a @0: u3,')
        lg = Logger({})
        try:
            r = get_fcp(os.path.join(d, "root.fcp"), lg)
            if not r.is_err() or "m.fcp" not in lg.error(r.err()):
                return {"check": "error inside a module must be an Err naming the module", "observed": repr(r)[:200]}
        except BaseException as e:
            return {"check": "an exception escaped get_fcp for a broken module", "observed": type(e).__name__}
        os.remove(os.path.join(d, "sub", "m.fcp"))
        lg = Logger({})
        try:
            r = get_fcp(os.path.join(d, "root.fcp"), lg)
            if not r.is_err() or "m.fcp" not in lg.error(r.err()):
                return {"check": "a missing module must be an Err naming the file", "observed": repr(r)[:200]}
        except BaseException as e:
            return {"check": "an exception escaped get_fcp for a missing module", "observed": type(e).__name__}
    finally:
        shutil.rmtree(d, ignore_errors=True)
    return None


def search(pid, seed, tier, skip):
    rnd = random.Random(seed)
    texts = list(BAD) + [GOOD] + [GOOD[:k] for k in range(0, len(GOOD), 7)]
    for _ in range(60):
        k = rnd.randrange(len(GOOD))
        texts.append(GOOD[:k] + rnd.choice("{}[],:@|;\"x9 ") + GOOD[k + 1:])
    n = 0
    for t in texts:
        n += 1
        f = one(t)
        if f:
            return {"failure": f, "tried": n}
    f = split_check() or clash_check() or history_check()
    if f:
        return {"failure": f, "tried": n}
    return {"failure": None, "tried": n}


if __name__ == "__main__":
    cmd = sys.argv[1]
    if cmd == "search":
        print(json.dumps(search(sys.argv[2], int(sys.argv[3]), sys.argv[4], sys.argv[5:]), default=str))
    elif cmd == "replay":
        r = json.loads(sys.argv[2])
        print(json.dumps({"fails": (one(r["input"]) if "input" in r else (clash_check() if r.get("scenario") == "clash" else (history_check() if r.get("scenario") == "history" else split_check()))) is not None}))
    elif cmd == "witness":
        # regression witnesses of repaired findings (known_findings.json "fixed" entries with a witness id)
        f = clash_check() if sys.argv[2] in ("F24", "F25") else None
        print(json.dumps({"fails": f is not None, "failure": f}, default=str))
