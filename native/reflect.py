"""Native replay for C12: reflection records of real schemas, judged by the same predicate PyVC proves
(spec/reflect.py:is_fcp_rec), plus serialisation with the built-in reflection schema.  Replay/witness only."""
import sys, json
from fcp.parser import get_fcp_from_string
from fcp.error import Logger
from fcp.reflection import get_reflection_schema
from fcp.serde import encode, decode
from native.parse import GOOD
from spec import reflect as R
from spec import prelude as P

SCHEMAS = [
    GOOD,
    'version: "3"\nstruct A { x @0: [Optional[[u8, 2]]], }\nimpl can for A { id: 1, signal x { mux_count: 2, }, }\n',
    # falsy declared values: unit "", range starting at 0.0
    'version: "3"\nstruct A { x @0: u8 | unit("") range(0.0, 0.0), y @1: f32 | unit("V") range(-1.5, 2.5), }\n',
    # signal blocks / bindings with non-string option values
    'version: "3"\nenum E { A0 = 0, A1 = 5, }\nstruct A { e @0: E, b @1: i9, s @2: str, }\n'
    'impl can for A { id: 10, bus: "b1", period: 100, signal b { mux_count: 4, scale: 0.5, endianess: "big", }, signal e { mux_signal: "b", }, }\n',
    'version: "3"\nstruct R { a @0: u8, }\nstruct S { b @0: [R], }\nservice Svc @1 { method m1(R) @0 returns S, method m2(S) @1 returns R, }\n',
    # two methods that share an id (nothing rejects this): both must be listed, in declaration order
    'version: "3"\nstruct R { a @0: u8, }\nservice Svc @1 { method m2(R) @3 returns R, method m1(R) @3 returns R, method m0(R) @0 returns R, }\n',
]


def keys_of(x, acc):
    if isinstance(x, dict):
        for k, v in x.items():
            acc.add(k)
            keys_of(v, acc)
    elif isinstance(x, list):
        for v in x:
            keys_of(v, acc)


def check(src):
    r0 = get_fcp_from_string(src, Logger({}))
    if r0.is_err():
        return None      # not an accepted schema: outside the property
    f = r0.unwrap()
    try:
        r = f.reflection()
    except Exception as e:
        return {"schema": src, "check": "reflection() raises", "observed": repr(e)}
    P.STR_UNIVERSE.clear()
    keys_of(r, P.STR_UNIVERSE)
    try:
        ok = R.is_fcp_rec(r, f)
    except Exception as e:
        return {"schema": src, "check": "record does not have the shape is_fcp_rec reads", "observed": repr(e)}
    if not ok:
        which = []
        for nm, pred, nodes in (("structs", R.is_struct_rec, f.structs), ("enums", R.is_enum_rec, f.enums),
                                ("impls", R.is_impl_rec, f.impls), ("services", R.is_service_rec, f.services)):
            recs = r.get(nm)
            if not isinstance(recs, list) or len(recs) != len(nodes):
                which.append(f"{nm}: {len(recs) if isinstance(recs, list) else recs!r} records for {len(nodes)} declared")
                continue
            for d, n in zip(recs, nodes):
                if not pred(d, n):
                    which.append(f"{nm}: record of {n.name} = {d!r}")
        return {"schema": src, "check": "spec/reflect.py:is_fcp_rec(record, schema)", "observed": which or repr(r)[:400]}
    return None


def search(pid, seed, tier, skip):
    for src in SCHEMAS:
        f = check(src)
        if f:
            return {"failure": f}
    return {"failure": None, "tried": len(SCHEMAS)}


if __name__ == "__main__":
    cmd = sys.argv[1]
    if cmd == "search":
        print(json.dumps(search(sys.argv[2], int(sys.argv[3]), sys.argv[4], sys.argv[5:]), default=str))
    elif cmd == "replay":
        print(json.dumps({"fails": check(json.loads(sys.argv[2])["schema"]) is not None}))
    elif cmd == "witness":
        print(json.dumps({"fails": False}))
