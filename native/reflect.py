"""Native replay for C12: reflection records of real schemas (serialisation with the reflection schema included)."""
import sys, json
from fcp.parser import get_fcp_from_string
from fcp.error import Logger
from fcp.reflection import get_reflection_schema
from fcp.serde import encode, decode
from native.parse import GOOD

SCHEMAS = [GOOD, 'version: "3"\nstruct A { x @0: [Optional[[u8, 2]]], }\nimpl can for A { id: 1, signal x { mux_count: 2, }, }\n']


def check(src):
    f = get_fcp_from_string(src, Logger({})).unwrap()
    try:
        r = f.reflection()
    except Exception as e:
        return {"schema": src, "check": "reflection() raises", "observed": repr(e)}
    names = [s["name"] for s in r["structs"]]
    if names != [s.name for s in f.structs]:
        return {"schema": src, "check": "structs listed", "observed": names}
    for s, rs in zip(f.structs, r["structs"]):
        for fld, rf in zip(s.fields, rs["fields"]):
            if rf["name"] != fld.name or rf["field_id"] != fld.field_id or rf["unit"] != fld.unit:
                return {"schema": src, "check": f"field {fld.name} record", "observed": rf}
    for i, ri in zip(f.impls, r["impls"]):
        if [sb["name"] for sb in ri["signals"]] != [sb.name for sb in i.signals]:
            return {"schema": src, "check": f"signal blocks of binding {i.name}", "observed": ri["signals"]}
    return None


def search(pid, seed, tier, skip):
    for src in SCHEMAS:
        f = check(src)
        if f:
            return {"failure": f}
    return {"failure": None, "tried": len(SCHEMAS)}


if __name__ == "__main__":
    cmd = sys.argv[1]
    if cmd == "search":
        print(json.dumps(search(sys.argv[2], int(sys.argv[3]), sys.argv[4], sys.argv[5:]), default=str))
    elif cmd == "replay":
        print(json.dumps({"fails": check(json.loads(sys.argv[2])["schema"]) is not None}))
    elif cmd == "witness":
        print(json.dumps({"fails": False}))
