"""Native replay for C05/C14: real fcp_dbc output, re-read with cantools, against the packed layout."""
import sys, json
from fcp.parser import get_fcp_from_string
from fcp.error import Logger
from fcp.encoding import make_encoder, PackedEncoderContext
from fcp.specs.type import *
import cantools
from fcp_dbc.dbc_writer import write_dbc
from native.layout import SCHEMAS

EXTRA = [
    'struct A { a @0: f32, b @1: i7, c @2: f64, }\nimpl can for A { id: 3, }' if False else 'struct A { a @0: f32, b @1: i7, c @2: u8, }\nimpl can for A { id: 3, }',
    'struct A { a @0: u64, b @1: u1, }\nimpl can for A { id: 4, }',
    'struct A { d @0: f64, }\nimpl can for A { id: 7, }',
    # more than 64 bits although every leaf starts below bit 64
    'struct A { a @0: u32, b @1: u16, c @2: u32, }\nimpl can for A { id: 11, }',
    'struct A { a @0: u63, b @1: u2, }\nimpl can for A { id: 12, }',
    # one struct bound to two buses without an alias (two bindings with the same name)
    'struct A { a @0: u8, }\nimpl can for A { id: 21, bus: "p", }\nimpl can for A { id: 22, bus: "q", }',
    'struct A { a @0: u8, f @1: f32, b @2: i9, }\nimpl can for A { id: 8, }',
    'struct A { a @0: u8, s @1: str, }\nimpl can for A { id: 5, }',
    'struct A { a @0: u8, o @1: Optional[u8], }\nimpl can for A { id: 5, }',
    'struct I { o @0: Optional[u16], }\nstruct A { a @0: u8, i @1: I, }\nimpl can for A { id: 5, }',
    'struct A { a @0: u8, d @1: [u8], }\nimpl can for A { id: 5, }',
    'struct A { a @0: u8, }\nstruct B { b @0: u16, }\nimpl can for A { id: 5, bus: "x", }\nimpl can for B { id: 6, bus: "y", }',
    # two bindings of the same struct with different per-signal options, on the same and on different buses
    'struct A { a @0: u8, b @1: u16, }\nimpl can for A as X { id: 1, signal b { endianess: "big", }, }\nimpl can for A as Y { id: 2, }',
    'struct A { a @0: u8, b @1: u16, }\nimpl can for A as X { id: 1, bus: "p", }\nimpl can for A as Y { id: 2, bus: "q", signal b { endianess: "big", }, }\nimpl can for A as Z { id: 3, bus: "p", }',
    # an enum whose name starts with a lower-case i (sign flag must come from the type, not from its name)
    'enum ignition { off = 0, acc = 1, on = 2, start = 3, }\nstruct A { k @0: ignition, r @1: u6, }\nimpl can for A { id: 9, }',
]


def check(src):
    fcp = get_fcp_from_string('version: "3"\n' + src + "\n", Logger({})).unwrap()
    enc = make_encoder("packed", fcp, PackedEncoderContext().with_unroll_arrays(True))
    impls = [i for i in fcp.impls if i.protocol == "can"]
    # expectation from an independent layout function (native/layout.py), not from the encoder under test
    from native.layout import leaves as _leaves
    bad = False
    for i in impls:
        try:
            exp = _leaves(fcp, i.type, "", True)
            if sum(w for _, w, _ in exp) > 64:
                bad = True
        except ValueError:
            bad = True
    try:
        r = write_dbc(fcp)
        out = r.unwrap() if hasattr(r, "unwrap") else r
        failed = False
    except Exception as ex:
        failed = True
    if bad != failed:
        return {"schema": src, "check": "DBC generation must fail exactly when a CAN message is variable-size or wider than 64 bits",
                "expected_failure": bad, "observed_failure": failed}
    if failed:
        return None
    dbs = {bus: cantools.database.load_string(txt) for bus, txt in out}
    for i in impls:
        bus = i.fields.get("bus", "default")
        if bus not in dbs:
            return {"schema": src, "check": f"no DBC text was returned for bus {bus} (binding {i.name})", "observed": sorted(dbs)}
        msg = [m for m in dbs[bus].messages if m.frame_id == i.fields["id"]]
        if len(msg) != 1 or msg[0].name != i.name:
            return {"schema": src, "check": f"bus file {bus} must contain exactly one message for binding {i.name}"}
        e = enc.generate(i)
        total = e[-1].bitstart + e[-1].bitlength
        if msg[0].length != (total + 7) // 8:
            return {"schema": src, "check": "message length", "expected": (total + 7) // 8, "observed": msg[0].length}
        sigs = {s.name: s for s in msg[0].signals}
        for p in e:
            s = sigs.get(p.name.replace("::", "_"))
            if s is None:
                return {"schema": src, "check": f"signal for piece {p.name} missing"}
            big = p.endianess == "big"
            exp = dict(start=p.bitstart + 7 if p.endianess != "little" else p.bitstart, length=p.bitlength,
                       byte_order="big_endian" if big else "little_endian",
                       is_signed=isinstance(p.type, SignedType), is_float=isinstance(p.type, (FloatType, DoubleType)))
            got = dict(start=s.start, length=s.length, byte_order=s.byte_order, is_signed=s.is_signed, is_float=bool(s.is_float))
            if exp != got:
                return {"schema": src, "check": f"signal {s.name}", "expected": exp, "observed": got}
    return None


def check_c_size(widths):
    """C14, C plug-in: the registered size rule rejects exactly the flat numeric structs wider than 64 bits"""
    import fcp_can_c
    from fcp.verifier import make_general_verifier
    fields = " ".join(f"f{i} @{i}: u{w}," for i, w in enumerate(widths))
    src = f'struct A {{ {fields} }}\nimpl can for A {{ id: 1, device: "ecu", }}'
    fcp = get_fcp_from_string('version: "3"\n' + src + "\n", Logger({})).unwrap()
    v = make_general_verifier()
    fcp_can_c.Generator().register_checks(v)
    try:
        r = v.verify(fcp)
        rejected = r.is_err()
    except Exception as e:
        return {"schema": src, "can_c": True, "widths": widths, "check": "the C plug-in's checks raised instead of returning a verdict", "observed": repr(e)}
    if rejected != (sum(widths) > 64):
        return {"schema": src, "can_c": True, "widths": widths, "check": "C plug-in size rule: rejected iff more than 64 bits",
                "bits": sum(widths), "rejected": rejected}
    return None


def check_c_oversize(src, bits):
    """C14, C plug-in: a binding whose packed size exceeds 64 bits is never accepted (an error value or an exception are both a failure
    of the command; Ok is not), whatever kind of field holds the excess"""
    import fcp_can_c
    from fcp.verifier import make_general_verifier
    fcp = get_fcp_from_string('version: "3"\n' + src + "\n", Logger({})).unwrap()
    v = make_general_verifier()
    fcp_can_c.Generator().register_checks(v)
    try:
        ok = v.verify(fcp).is_ok()
    except Exception:
        ok = False
    if ok and bits > 64:
        return {"schema": src, "can_c_oversize": bits, "check": "C plug-in accepted a CAN binding of more than 64 bits"}
    return None


C_OVERSIZE = [
    ('struct I { x @0: u32, y @1: u8, }\nstruct A { a @0: u32, i @1: I, }\nimpl can for A { id: 1, device: "ecu", }', 72),
    ('enum E { P = 0, Q = 5, }\nstruct A { a @0: u32, b @1: u32, e @2: E, }\nimpl can for A { id: 1, device: "ecu", }', 67),
    ('struct A { a @0: u32, b @1: [u16, 3], }\nimpl can for A { id: 1, device: "ecu", }', 80),
]


def search(pid, seed, tier, skip):
    if pid == "C14":
        for src, bits in C_OVERSIZE:
            f = check_c_oversize(src, bits)
            if f:
                return {"failure": f}
        for widths in ([32, 32], [32, 32, 1], [32, 32, 4], [32, 32, 7], [64, 8], [8] * 9, [63, 1], [33, 32], [16, 16, 16, 16, 8]):
            f = check_c_size(widths)
            if f:
                return {"failure": f}
    n = 0
    for src in SCHEMAS + EXTRA:
        n += 1
        f = check(src)
        if f:
            return {"failure": f, "tried": n}
    return {"failure": None, "tried": n}


if __name__ == "__main__":
    cmd = sys.argv[1]
    if cmd == "search":
        print(json.dumps(search(sys.argv[2], int(sys.argv[3]), sys.argv[4], sys.argv[5:]), default=str))
    elif cmd == "replay":
        rec = json.loads(sys.argv[2])
        if rec.get("can_c_oversize"):
            print(json.dumps({"fails": check_c_oversize(rec["schema"], rec["can_c_oversize"]) is not None}))
        else:
            print(json.dumps({"fails": (check_c_size(rec["widths"]) if rec.get("can_c") else check(rec["schema"])) is not None}))
    elif cmd == "witness":
        print(json.dumps({"fails": False}))
