"""Witnesses of recorded known findings that have no dedicated oracle module."""
import sys, json


def kf_f9():
    from fcp.parser import get_fcp_from_string
    from fcp.error import Logger
    from fcp.encoding import make_encoder, PackedEncoderContext
    f = get_fcp_from_string('version: "3"\nstruct A { x @0: [u8, 1], x_0 @1: u8, }\nimpl can for A { id: 1, }\n', Logger({})).unwrap()
    e = make_encoder("packed", f, PackedEncoderContext().with_unroll_arrays(True)).generate([i for i in f.impls if i.protocol == "can"][0])
    names = [v.name for v in e]
    return {"fails": len(set(names)) != len(names), "detail": names}


def kf_f16():
    from fcp.parser import get_fcp_from_string
    from fcp.error import Logger
    from fcp.verifier import make_general_verifier
    import fcp_can_c
    f = get_fcp_from_string('version: "3"\nenum E { A = 0, }\nstruct S { e @0: E, }\nimpl can for S { id: 1, }\n', Logger({})).unwrap()
    v = make_general_verifier()
    fcp_can_c.Generator().register_checks(v)
    try:
        r = v.verify(f)
        return {"fails": False, "detail": repr(r)}
    except ValueError as e:
        return {"fails": True, "detail": repr(e)}


if __name__ == "__main__":
    if sys.argv[1] == "witness":
        print(json.dumps({"KF-F9": kf_f9, "KF-F16": kf_f16}[sys.argv[2]](), default=str))
    else:
        print(json.dumps({"failure": None}))
