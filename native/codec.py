"""Native oracle for C01/C02/C15/C16: runs the REAL fcp.serde against the executable spec (spec/wire.py, the same
definitions PyVC proves against).  Used only to (a) re-run known-finding witnesses and (b) turn a failed obligation into
a concrete failing input (directed search over boundary inputs).  It never decides a property by itself."""
import sys, json, random, itertools
sys.setrecursionlimit(20000)
from fcp.parser import get_fcp_from_string
from fcp.error import Logger
from fcp.specs.type import *
import fcp.serde as serde
from spec import wire as W
from spec.prelude import bytes_of_bits


def parse(src):
    r = get_fcp_from_string(src, Logger({}))
    assert r.is_ok(), (src, r)
    return r.unwrap()


SCALARS = ["u1", "u3", "u7", "u8", "u12", "u16", "u31", "u32", "u33", "u63", "u64", "i1", "i2", "i5", "i8", "i13", "i16", "i32", "i47",
           "i64", "f32", "f64"]


def schemas():
    """(source text, struct name) pairs: every scalar at every intra-byte alignment, containers, nesting, id order."""
    out = []
    for pad in (0, 1, 3, 5, 7):
        for t in SCALARS:
            f = (f"pad @0: u{pad}, " if pad else "") + f"x @1: {t}, tail @2: u5,"
            out.append((f'version: "3"\nstruct A {{ {f} }}\n', "A"))
    extra = [
        'enum E { A0 = 0, A1 = 1, A2 = 2, A5 = 5, }\nstruct A { p @0: u3, e @1: E, q @2: u2, }',
        'enum E { Z = 0, }\nstruct A { e @0: E, x @1: u7, }',
        'enum E { Big = 300, }\nstruct A { x @0: u1, e @1: E, }',
        'struct A { p @0: u3, s @1: str, t @2: u8, }',
        'struct A { s @0: str, f @1: f32, }',
        'struct A { p @0: u1, a @1: [u3, 5], q @2: i9, }',
        'struct A { p @0: u2, d @1: [i7], q @2: u1, }',
        'struct A { p @0: u5, o @1: Optional[u16], q @2: Optional[f64], }',
        'struct A { o @0: Optional[str], d @1: [str], }',
        'struct I { a @0: u3, b @1: i6, }\nstruct A { p @0: u1, i @1: I, arr @2: [I, 2], d @3: [I], o @4: Optional[I], }',
        'struct A { y @1: u8, x @0: u16, z @2: u4, }',
        'struct I { b @5: u3, a @2: f32, }\nstruct A { q @9: u1, i @3: I, }',
        'struct A { d @0: [[u3, 2]], o @1: Optional[[u5]], }',
        'enum E { A0 = 0, A1 = 1, A2 = 2, }\nstruct A { d @0: [E], a @1: [E, 3], o @2: Optional[E], }',
    ]
    for e in extra:
        out.append(('version: "3"\n' + e + "\n", "A"))
    return out


def values_for(fcp, t, rnd, depth=0):
    """boundary + a few random conforming values for type t"""
    if isinstance(t, UnsignedType):
        n = t.get_length()
        return [0, 1, 2 ** n - 1, 2 ** (n - 1), rnd.randrange(2 ** n)]
    if isinstance(t, SignedType):
        n = t.get_length()
        return [0, -1, 2 ** (n - 1) - 1, -(2 ** (n - 1)), -(2 ** (n - 1)) + 1, rnd.randrange(-(2 ** (n - 1)), 2 ** (n - 1))]
    if isinstance(t, FloatType):
        return [0.0, 1.5, -2.25, 3.4028234663852886e+38, 1.401298464324817e-45, float("inf")]
    if isinstance(t, DoubleType):
        return [0.0, 1.5, -2.25, 1.7976931348623157e+308, 5e-324, 0.1, float("-inf")]
    if isinstance(t, EnumType):
        e = fcp.get_enum(t.name).unwrap()
        w = W.enum_width(e)
        return sorted({x.value for x in e.enumeration} | {0, 2 ** w - 1})
    if isinstance(t, StringType):
        return ["", "a", "hello", "\x00\x7f~ ", "x" * 9]
    if isinstance(t, StructType):
        return struct_values(fcp, t.name, rnd, depth + 1)[:4]
    if isinstance(t, ArrayType):
        inner = values_for(fcp, t.underlying_type, rnd, depth + 1)
        return [[inner[(i + k) % len(inner)] for i in range(t.size)] for k in range(min(3, len(inner)))]
    if isinstance(t, DynamicArrayType):
        inner = values_for(fcp, t.underlying_type, rnd, depth + 1)
        return [[], inner[:1], inner[:3], list(reversed(inner))]
    if isinstance(t, OptionalType):
        return [None] + values_for(fcp, t.underlying_type, rnd, depth + 1)[:3]
    raise TypeError(t)


def struct_values(fcp, name, rnd, depth=0):
    s = fcp.get_struct(name).unwrap()
    per = [(f.name, values_for(fcp, f.type, rnd, depth)) for f in s.fields]
    n = max(len(v) for _, v in per)
    out = []
    for k in range(n):
        out.append({nm: vs[k % len(vs)] for nm, vs in per})
    # one mixed combination
    out.append({nm: vs[rnd.randrange(len(vs))] for nm, vs in per})
    return out


def eq(a, b):
    """value equality with floats compared bit for bit"""
    if isinstance(a, float) and isinstance(b, float):
        return W.f64_bits(a) == W.f64_bits(b)
    if isinstance(a, dict) and isinstance(b, dict):
        return a.keys() == b.keys() and all(eq(a[k], b[k]) for k in a)
    if isinstance(a, list) and isinstance(b, list):
        return len(a) == len(b) and all(eq(x, y) for x, y in zip(a, b))
    return type(a) == type(b) and a == b


def signed_min_inside(fcp, t, v):
    """does v contain the minimum of a signed field (the region of known finding KF-F1)?"""
    if isinstance(t, SignedType):
        return v == -(2 ** (t.get_length() - 1))
    if isinstance(t, StructType):
        s = fcp.get_struct(t.name).unwrap()
        return any(signed_min_inside(fcp, f.type, v[f.name]) for f in s.fields)
    if isinstance(t, (ArrayType, DynamicArrayType)):
        return any(signed_min_inside(fcp, t.underlying_type, x) for x in v)
    if isinstance(t, OptionalType):
        return v is not None and signed_min_inside(fcp, t.underlying_type, v)
    return False


def check_one(src, name, v, fcp=None, skip_signed_min=False, props=("C01", "C02", "C16")):
    """-> None or a failure record"""
    fcp = fcp or parse(src)
    T = StructType(name)
    import copy
    expected = bytes_of_bits(W.wire(fcp, T, v))
    rec = {"schema": src, "struct": name, "value": repr(v)}
    try:
        enc = serde.encode(fcp, name, copy.deepcopy(v))
    except Exception as e:
        return dict(rec, check="encode raises on a conforming value", observed=repr(e))
    if "C02" in props and list(enc) != expected:
        return dict(rec, check="encode(v) != canonical wire bytes", expected=expected, observed=list(enc))
    if skip_signed_min and signed_min_inside(fcp, T, v):
        return None
    for label, data in (("decode(encode(v))", enc), ("decode(canonical bytes)", bytearray(expected))):
        if label.startswith("decode(enc") and "C01" not in props:
            continue
        try:
            back = serde.decode(fcp, name, bytearray(data))
        except Exception as e:
            return dict(rec, check=label + " raises", observed=repr(e), bytes=list(data))
        if not eq(back, v):
            return dict(rec, check=label + " != v", observed=repr(back), bytes=list(data))
    if "C16" in props:
        for k in range(len(expected)):
            try:
                back = serde.decode(fcp, name, bytearray(expected[:k]))
            except Exception:
                continue
            return dict(rec, check=f"decode of the strict prefix of length {k} returned a value instead of raising",
                        observed=repr(back), bytes=expected[:k])
    return None


def permuted_twin(src, how="reverse"):
    """the same schema with the fields of every struct written in another order (ids kept): reversed, or rotated by one
    (a 3-cycle for three fields: the one permutation class that differs from its inverse)"""
    import re
    def rev(m):
        fields = [f.strip() for f in m.group(2).split(",") if f.strip()]
        # commas inside [T, n] array types: re-join pieces that are not complete fields
        merged, cur = [], ""
        for piece in fields:
            cur = (cur + ", " + piece) if cur else piece
            if cur.count("[") == cur.count("]"):
                merged.append(cur)
                cur = ""
        perm = list(reversed(merged)) if how == "reverse" else merged[1:] + merged[:1]
        return m.group(1) + " " + ", ".join(perm) + ", }"
    return re.sub(r"(struct \w+ \{)([^}]*)\}", rev, src)


def search(pid, seed, tier, skip):
    rnd = random.Random(seed)
    skip_min = "KF-F1" in skip
    props = {"C01": ("C01",), "C02": ("C02",), "C16": ("C16",), "C15": ()}.get(pid, ("C01", "C02", "C16"))
    n = 0
    for src, name in schemas():
        fcp = parse(src)
        for v in struct_values(fcp, name, rnd):
            n += 1
            if pid == "C15":
                for how in ("reverse", "rotate"):
                    tw = permuted_twin(src, how)
                    ftw = parse(tw)
                    a = list(serde.encode(fcp, name, v))
                    b = list(serde.encode(ftw, name, v))
                    if a != b:
                        return {"failure": {"schema": src, "twin": tw, "struct": name, "value": repr(v),
                                            "check": "declaration-permuted twin encodes to different bytes", "expected": a, "observed": b}}
                    try:
                        da, db = serde.decode(fcp, name, bytes(a)), serde.decode(ftw, name, bytes(a))
                    except Exception as e:
                        da, db = "decode raises", repr(e)
                    if da != db:
                        return {"failure": {"schema": src, "twin": tw, "struct": name, "value": repr(v), "decode": True,
                                            "check": "declaration-permuted twin decodes the same bytes to a different value",
                                            "expected": repr(da), "observed": repr(db)}}
                continue
            f = check_one(src, name, v, fcp, skip_min, props)
            if f:
                return {"failure": f, "tried": n}
    if pid == "C15":
        from native import layout
        r = layout.search(pid, seed, tier, skip)
        if r.get("failure"):
            r["failure"]["oracle"] = "layout"
            return r
    return {"failure": None, "tried": n, "note": f"{n} boundary inputs over {len(schemas())} schemas agree with the spec"}


WITNESSES = {
    "KF-F1": ('version: "3"\nstruct A { x @0: i8, }\n', "A", {"x": -128}),
}


def witness(kid):
    if kid == "KF-F23":
        fcp = parse('version: "3"\nstruct A { d @0: [[u8, 0]], }\n')
        try:
            r = serde.decode(fcp, "A", bytes([0xe8, 0x03, 0x00, 0x00]))      # count 1000, no element data
            return {"fails": len(r["d"]) > 32, "detail": f"decoded {len(r['d'])} elements from a 4-byte input"}
        except Exception as e:
            return {"fails": False, "detail": repr(e)}
    src, name, v = WITNESSES[kid]
    f = check_one(src, name, v, props=("C01",))
    return {"fails": f is not None, "detail": f}


def replay(rec):
    v = eval(rec["value"], {"inf": float("inf"), "nan": float("nan")}) if "value" in rec else None
    if rec.get("oracle") == "layout":
        from native import layout
        return {"fails": layout.check(rec["schema"], rec["unroll"]) is not None}
    if "twin" in rec:
        a = list(serde.encode(parse(rec["schema"]), rec["struct"], v))
        b = list(serde.encode(parse(rec["twin"]), rec["struct"], v))
        if rec.get("decode"):
            try:
                return {"fails": serde.decode(parse(rec["schema"]), rec["struct"], bytes(a)) != serde.decode(parse(rec["twin"]), rec["struct"], bytes(a))}
            except Exception as e:
                return {"fails": True, "raises": repr(e)}
        return {"fails": a != b, "a": a, "b": b}
    f = check_one(rec["schema"], rec["struct"], v)
    return {"fails": f is not None, "detail": f}


if __name__ == "__main__":
    cmd = sys.argv[1]
    if cmd == "search":
        print(json.dumps(search(sys.argv[2], int(sys.argv[3]), sys.argv[4], sys.argv[5:]), default=str))
    elif cmd == "witness":
        print(json.dumps(witness(sys.argv[2]), default=str))
    elif cmd == "replay":
        print(json.dumps(replay(json.loads(sys.argv[2])), default=str))
