"""Native replay for C04/C14/C05(part): the real PackedEncoder against a small independent layout function."""
import sys, json
from fcp.parser import get_fcp_from_string
from fcp.error import Logger
from fcp.encoding import make_encoder, PackedEncoderContext
from fcp.specs.type import *

SCHEMAS = [
    'struct A { a @0: u3, b @1: i5, c @2: f32, }\nimpl can for A { id: 1, }',
    'struct A { b @1: u4, a @0: u9, c @2: u1, }\nimpl can for A { id: 1, }',
    'enum E { X = 0, Y = 5, }\nstruct A { a @0: u2, e @1: E, b @2: u7, }\nimpl can for A { id: 1, }',
    'enum E { X = 0, Y = 17, }\nstruct A { e @0: E, b @1: u3, }\nimpl can for A { id: 1, }',
    'struct I { y @1: u4, x @0: u2, }\nstruct A { p @0: u1, i @1: I, q @2: u3, }\nimpl can for A { id: 1, }',
    'struct A { p @0: u1, arr @1: [u3, 4], q @2: u3, }\nimpl can for A { id: 1, }',
    'struct I { x @0: u2, y @1: i3, }\nstruct A { arr @0: [I, 2], q @1: u3, }\nimpl can for A { id: 1, }',
    # two bindings of one struct with different per-signal options, laid out by the same encoder
    'struct A { a @0: u8, b @1: u16, }\nimpl can for A as X { id: 1, signal b { endianess: "big", }, }\nimpl can for A as Y { id: 2, signal a { mux_count: 2, }, }',
    # enums whose largest value is beyond the exact range of a double (width must come from integer bit length)
    'enum E { X = 0, Y = 9007199254740993, }\nstruct A { e @0: E, b @1: u3, }\nimpl can for A { id: 1, }',
    'enum E { X = 0, Y = 4503599627370497, }\nstruct A { p @0: u2, e @1: E, b @2: u3, }\nimpl can for A { id: 1, }',
    # declaration orders that differ from id order: a 3-cycle (differs from its inverse), and inside array elements
    'struct A { c @2: u1, a @0: u9, b @1: u4, }\nimpl can for A { id: 1, }',
    'struct I { y @1: i3, z @2: u5, x @0: u2, }\nstruct A { q @1: u3, arr @0: [I, 2], }\nimpl can for A { id: 1, }',
    'struct A { a @0: u8, b @1: u8, }\nstruct B { x @0: u4, y @1: u4, }\nimpl can for A { id: 1, signal b { endianess: "big", }, }\nimpl can for B { id: 2, }',
    'struct I { a @0: u8, }\nstruct A { a @0: u8, i @1: I, }\nimpl can for A { id: 1, signal a { mux_count: 4, mux_signal: "i", }, }',
]


def width(fcp, t):
    if isinstance(t, (UnsignedType, SignedType, FloatType, DoubleType)):
        return int(t.name[1:])
    if isinstance(t, EnumType):
        m = max(e.value for e in fcp.get_enum(t.name).unwrap().enumeration)
        return max(1, m.bit_length())
    if isinstance(t, ArrayType):
        return t.size * width(fcp, t.underlying_type)
    raise ValueError("no static size")


def leaves(fcp, sname, prefix, unroll):
    out = []
    s = fcp.get_struct(sname).unwrap()
    for f in sorted(s.fields, key=lambda f: f.field_id):
        out += field_leaves(fcp, f.type, f.name, prefix, unroll, f.name)
    return out


def field_leaves(fcp, t, name, prefix, unroll, opt_name):
    if isinstance(t, StructType):
        return leaves(fcp, t.name, prefix + name + "::", unroll)
    if isinstance(t, ArrayType) and unroll:
        out = []
        for i in range(t.size):
            out += field_leaves(fcp, t.underlying_type, f"{name}_{i}", prefix, unroll, f"{name}_{i}")
        return out
    return [(prefix + name, width(fcp, t), opt_name)]


def check(src, unroll):
    fcp = get_fcp_from_string('version: "3"\n' + src + "\n", Logger({})).unwrap()
    impls = [i for i in fcp.impls if i.protocol == "can"]
    enc = make_encoder("packed", fcp, PackedEncoderContext().with_unroll_arrays(unroll))
    for order in (impls, list(reversed(impls)), impls + impls):
        for impl in order:
            try:
                exp = leaves(fcp, impl.type, "", unroll)
            except ValueError:
                exp = None
            try:
                got = enc.generate(impl)
            except ValueError:
                got = None
            if exp is None or got is None:
                if (exp is None) != (got is None):
                    return {"schema": src, "unroll": unroll, "impl": impl.name, "check": "generate raises ValueError exactly for variable-size content",
                            "expected_raise": exp is None, "observed_raise": got is None}
                continue
            pos = 0
            if [v.name for v in got] != [n for n, _, _ in exp]:
                return {"schema": src, "unroll": unroll, "impl": impl.name, "check": "leaf names / order", "expected": [n for n, _, _ in exp], "observed": [v.name for v in got]}
            for v, (n, w, on) in zip(got, exp):
                if v.bitstart != pos or v.bitlength != w:
                    return {"schema": src, "unroll": unroll, "impl": impl.name, "check": f"piece {n}: expected start {pos} width {w}", "observed": [v.bitstart, v.bitlength]}
                pos += w
                blk = impl.get_signal(on)
                want = blk.unwrap().fields if blk.is_some() else {}
                if dict(v.extended_data) != dict(want) or v.endianess != (want.get("endianess") or "little"):
                    return {"schema": src, "unroll": unroll, "impl": impl.name, "check": f"options of piece {n}", "expected": repr(want), "observed": repr(v.extended_data)}
    return None


def search(pid, seed, tier, skip):
    n = 0
    for src in SCHEMAS:
        for unroll in (False, True):
            n += 1
            f = check(src, unroll)
            if f:
                return {"failure": f, "tried": n}
    return {"failure": None, "tried": n}


if __name__ == "__main__":
    cmd = sys.argv[1]
    if cmd == "search":
        print(json.dumps(search(sys.argv[2], int(sys.argv[3]), sys.argv[4], sys.argv[5:]), default=str))
    elif cmd == "replay":
        r = json.loads(sys.argv[2])
        print(json.dumps({"fails": check(r["schema"], r["unroll"]) is not None}))
    elif cmd == "witness":
        print(json.dumps({"fails": False}))
