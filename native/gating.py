"""Native replay for C10: run the real GeneratorManager on rejected / accepted schemas in a scratch directory."""
import sys, json, os, tempfile, shutil
from fcp.parser import get_fcp_from_string
from fcp.error import Logger
from fcp.codegen import GeneratorManager
from fcp.verifier import make_general_verifier

BAD = ['version: "3"\nstruct A { x @0: u8, }\nstruct A { y @0: u8, }\nimpl can for A { id: 1, }\n',
       'version: "3"\nstruct A { x @0: u8, x @1: u8, }\nimpl can for A { id: 1, }\n',
       'version: "3"\nstruct A { x @0: u8, }\nstruct B { x @0: u8, }\nimpl can for A { id: 1, }\nimpl can for B { id: 1, }\n']
GOOD = ['version: "3"\nstruct A { x @0: u8, }\nimpl can for A { id: 1, }\n']


def listing(d):
    out = {}
    for root, _, files in os.walk(d):
        for f in files:
            p = os.path.join(root, f)
            out[os.path.relpath(p, d)] = open(p, "rb").read().hex()[:64]
    return out


def search(pid, seed, tier, skip):
    n = 0
    for gen in ("dbc", "nop"):
        for src in BAD + GOOD:
            fcp = get_fcp_from_string(src, Logger({})).unwrap()
            d = tempfile.mkdtemp(prefix="c10_")
            try:
                open(os.path.join(d, "keep.dbc"), "w").write("pre-existing")
                before = listing(d)
                try:
                    r = GeneratorManager(make_general_verifier()).generate(gen, None, None, fcp, d)
                except SystemExit:
                    continue
                after = listing(d)
                n += 1
                if src in BAD:
                    if not r.is_err() or before != after:
                        return {"failure": {"generator": gen, "schema": src, "check": "rejected schema: result must be Err and the output directory unchanged",
                                            "result": repr(r)[:200], "before": before, "after": after}}
                else:
                    if r.is_err():
                        return {"failure": {"generator": gen, "schema": src, "check": "accepted schema reported an error", "result": repr(r)[:300]}}
            finally:
                shutil.rmtree(d, ignore_errors=True)
    return {"failure": None, "tried": n, "note": f"{n} generate() runs agree"}


if __name__ == "__main__":
    cmd = sys.argv[1]
    if cmd == "search":
        print(json.dumps(search(sys.argv[2], int(sys.argv[3]), sys.argv[4], sys.argv[5:]), default=str))
    elif cmd == "replay":
        print(json.dumps({"fails": search("C10", 0, "quick", [])["failure"] is not None}))
    elif cmd == "witness":
        print(json.dumps({"fails": False}))
