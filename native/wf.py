"""Native replay for C09: real verifier verdict vs. the statement's clauses on a corpus of small schemas."""
import sys, json, itertools
from fcp.parser import get_fcp_from_string
from fcp.error import Logger
from fcp.verifier import make_general_verifier


def wf_general(f):
    names = [t.name for t in f.structs + f.enums]
    if len(set(names)) != len(names):
        return False
    pairs = [(i.name, i.protocol) for i in f.impls]
    if len(set(pairs)) != len(pairs):
        return False
    for s in f.structs:
        fn = [x.name for x in s.fields]
        if not fn or len(set(fn)) != len(fn):
            return False
    for e in f.enums:
        if len({x.name for x in e.enumeration}) != len(e.enumeration) or len({x.value for x in e.enumeration}) != len(e.enumeration):
            return False
    svc = {s.name for s in f.services}
    for d in f.devices:
        ss = d.fields.get("services")
        if ss is not None and any(x not in svc for x in ss):
            return False
    return True


def wf_dbc(f):
    for i in f.impls:
        if f.get_struct(i.type).is_nothing():
            return False
    ids = [i.fields.get("id") for i in f.impls if i.protocol == "can" and i.fields.get("id") is not None]
    return len(set(ids)) == len(ids)


PIECES = {
    "ok": 'struct A { x @0: u8, }\nstruct B { y @0: u8, z @1: u4, }\nenum E { P = 0, Q = 1, }\nimpl can for A { id: 1, }\nimpl can for B { id: 2, }\n',
    "dup_type": 'struct A { x @0: u8, }\nstruct A { y @0: u8, }\n',
    "dup_type_enum": 'enum A { P = 0, }\nstruct A { y @0: u8, }\n',
    "dup_type3": 'struct A { x @0: u8, }\nstruct B { x @0: u8, }\nenum B { P = 0, }\n',
    "dup_impl": 'struct A { x @0: u8, }\nimpl can for A { id: 1, }\nimpl can for A { id: 2, }\n',
    "same_name_other_proto": 'struct A { x @0: u8, }\nimpl can for A { id: 1, }\nimpl foo for A { id: 2, }\n',
    "dup_field": 'struct A { x @0: u8, x @1: u8, }\n',
    "dup_field_second_struct": 'struct A { x @0: u8, }\nstruct B { a @0: u8, b @1: u8, a @2: u8, }\n',
    "dup_enumerator": 'enum E { P = 0, P = 1, }\nstruct A { x @0: u8, }\n',
    "dup_enum_value": 'enum E { P = 0, Q = 0, }\nstruct A { x @0: u8, }\n',
    "dup_enum_value_last": 'enum E { P = 0, Q = 1, R = 2, S = 2, }\nstruct A { x @0: u8, }\n',
    "device_ok": 'struct A { x @0: u8, }\nservice S @0 { method m(A) @0 returns A, }\ndevice d { services: [S], }\n',
    "device_missing": 'struct A { x @0: u8, }\nservice S @0 { method m(A) @0 returns A, }\ndevice d { services: [S, T], }\n',
    "device_missing_second": 'struct A { x @0: u8, }\nservice S @0 { method m(A) @0 returns A, }\ndevice d { services: [S], }\ndevice e { services: [T], }\n',
    "device_missing_after_plain": 'struct A { x @0: u8, }\nservice S @0 { method m(A) @0 returns A, }\ndevice a { id: 1, }\ndevice d { services: [T], }\n',
    "dup_can_id": 'struct A { x @0: u8, }\nstruct B { x @0: u8, }\nimpl can for A { id: 10, }\nimpl can for B { id: 10, }\n',
    "same_id_other_proto": 'struct A { x @0: u8, }\nstruct B { x @0: u8, }\nimpl can for A { id: 10, }\nimpl foo for B { id: 10, }\n',
    "unknown_struct": 'struct A { x @0: u8, }\nimpl can for Z { id: 10, }\n',
    "dup_field_first_of_two": 'struct A { a @0: u8, b @1: u8, a @2: u8, }\nstruct B { x @0: u8, }\n',
    "dup_field_middle_of_three": 'struct A { x @0: u8, }\nstruct B { a @0: u8, a @1: u8, }\nstruct C { a @0: u8, }\n',
    "no_types_device_missing": 'service S @0 { method m(A) @0 returns A, }\ndevice d { services: [T], }\n',
    "no_types_unknown_struct": 'impl can for Z { id: 10, }\n',
    "no_types_dup_impl": 'impl can for Z { id: 10, }\nimpl can for Z { id: 11, }\n',
    "two_structs_no_ids": 'struct A { x @0: u8, }\nstruct B { x @0: u8, }\nstruct C { x @0: u8, }\n',
}


def search(pid, seed, tier, skip):
    import fcp_dbc
    n = 0
    for name, body in PIECES.items():
        src = 'version: "3"\n' + body
        r = get_fcp_from_string(src, Logger({}))
        if r.is_err():
            continue
        f = r.unwrap()
        n += 1
        v = make_general_verifier()
        got = v.verify(f).is_ok()
        if got != wf_general(f):
            return {"failure": {"schema": src, "check": "general verifier verdict != specification", "verdict_ok": got, "spec_ok": wf_general(f)}}
        v2 = make_general_verifier()
        fcp_dbc.Generator().register_checks(v2)
        got2 = v2.verify(f).is_ok()
        exp2 = wf_general(f) and wf_dbc(f)
        if got2 != exp2:
            return {"failure": {"schema": src, "check": "general+DBC verdict != specification", "verdict_ok": got2, "spec_ok": exp2}}
    return {"failure": None, "tried": n}


if __name__ == "__main__":
    cmd = sys.argv[1]
    if cmd == "search":
        print(json.dumps(search(sys.argv[2], int(sys.argv[3]), sys.argv[4], sys.argv[5:]), default=str))
    elif cmd == "replay":
        print(json.dumps({"fails": search("C09", 0, "quick", [])["failure"] is not None}))
    elif cmd == "witness":
        print(json.dumps({"fails": False}))
