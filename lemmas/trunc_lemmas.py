"""C16, prefix lemmas about the specification only: whatever `starts` says about a long input at a position also holds for
any prefix of that input that still contains the whole image (locality of `starts`)."""


@lemma("lemmas:val_prefix")
def val_prefix(g: "seq[int]", f: "seq[int]", p: "int", n: "int"):
    """n bits read inside a prefix are the bits of the full input"""
    requires(is_prefix(g, f) and 0 <= p and 0 <= n and p + n <= len(g))
    ensures(val_bits(g, p, n) == val_bits(f, p, n))
    decreases(n)
    if n > 0:
        val_prefix(g, f, p, n - 1)


@lemma("lemmas:loc_elems")
def loc_elems(fcp: "ref:FcpV2", u: "ref:Type", l: "seq[dyn]", n: "int", g: "seq[int]", f: "seq[int]", p0: "int"):
    """elements laid out back to back from p0: if all of them lie inside the prefix, each one `starts` in the prefix too"""
    requires(is_prefix(g, f) and wf_type(fcp, u) and 0 <= n and 0 <= p0)
    requires(forall(0, n, lambda i: starts(fcp, u, f, p0 + len(wire_elems(fcp, u, l, i)), l[i])))
    requires(p0 + len(wire_elems(fcp, u, l, n)) <= len(g))
    ensures(forall(0, n, lambda i: starts(fcp, u, g, p0 + len(wire_elems(fcp, u, l, i)), l[i])))
    option("no_unfold", ["wire", "starts", "wf_type"])
    loop(0, over="range(n)",
         invariant=lambda it: forall(0, it, lambda i: starts(fcp, u, g, p0 + len(wire_elems(fcp, u, l, i)), l[i])))
    for k in range(n):
        elems_split(fcp, u, l, k + 1, n)
        loc(fcp, u, g, f, p0 + len(wire_elems(fcp, u, l, k)), elem_at(l, k))


@lemma("lemmas:loc_struct")
def loc_struct(fcp: "ref:FcpV2", name: "str", g: "seq[int]", f: "seq[int]", p0: "int", v: "dyn"):
    requires(is_prefix(g, f) and wf_struct(fcp, name) and 0 <= p0)
    requires(starts_struct(fcp, name, f, p0, v))
    requires(p0 + len(wire_struct(fcp, name, v)) <= len(g))
    ensures(starts_struct(fcp, name, g, p0, v))
    option("no_unfold", ["wire", "starts", "wf_type"])
    loop(0, over="range(n)",
         invariant=lambda it: forall(0, it, lambda k: starts(
             fcp, sorted_fields(struct_of(fcp, name))[k].type, g,
             p0 + len(wire_fields(fcp, sorted_fields(struct_of(fcp, name)), v, k)),
             dyn_get(v, sorted_fields(struct_of(fcp, name))[k].name))))
    fs = sorted_fields(struct_of(fcp, name))
    n = len(fs)
    for k in range(n):
        fields_split(fcp, fs, v, k + 1, n)
        loc(fcp, fs[k].type, g, f, p0 + len(wire_fields(fcp, fs, v, k)), dyn_get(v, fs[k].name))


@lemma("lemmas:loc_str")
def loc_str(fcp: "ref:FcpV2", t: "ref:StringType", g: "seq[int]", f: "seq[int]", p: "int", v: "dyn"):
    requires(is_prefix(g, f) and 0 <= p and unfold(starts(fcp, t, f, p, v)))
    requires(p + 32 + 8 * len(d_chars(v)) <= len(g))
    ensures(unfold(starts(fcp, t, g, p, v)))
    loop(0, over="range(n)",
         invariant=lambda it: forall(0, it, lambda i: val_bits(g, p + 32 + 8 * i, 8) == d_chars(v)[i]))
    n = len(d_chars(v))
    val_prefix(g, f, p, 32)
    for j in range(n):
        val_prefix(g, f, p + 32 + 8 * j, 8)


@lemma("lemmas:loc")
def loc(fcp: "ref:FcpV2", t: "ref:Type", g: "seq[int]", f: "seq[int]", p: "int", v: "dyn"):
    """locality of `starts`: a prefix that contains the whole image of v at p `starts` with v at p as well"""
    requires(is_prefix(g, f) and wf_type(fcp, t) and 0 <= p)
    requires(starts(fcp, t, f, p, v))
    requires(p + len(wire(fcp, t, v)) <= len(g))
    ensures(starts(fcp, t, g, p, v))
    option("opaque", ["wf_struct", "starts_struct", "wire_struct"])
    if isinstance(t, UnsignedType) or isinstance(t, SignedType):
        val_prefix(g, f, p, num_width(t))
    elif isinstance(t, FloatType):
        val_prefix(g, f, p, 32)
    elif isinstance(t, DoubleType):
        val_prefix(g, f, p, 64)
    elif isinstance(t, EnumType):
        val_prefix(g, f, p, enum_width(enum_of(fcp, t.name)))
    elif isinstance(t, StringType):
        loc_str(fcp, t, g, f, p, v)
    elif isinstance(t, StructType):
        loc_struct(fcp, t.name, g, f, p, v)
    elif isinstance(t, ArrayType):
        loc_elems(fcp, t.underlying_type, d_list(v), t.size, g, f, p)
    elif isinstance(t, DynamicArrayType):
        val_prefix(g, f, p, 32)
        loc_elems(fcp, t.underlying_type, d_list(v), len(d_list(v)), g, f, p + 32)
    elif d_is_none(v):
        val_prefix(g, f, p, 8)
    else:
        val_prefix(g, f, p, 8)
        loc(fcp, t.underlying_type, g, f, p + 8, v)


@lemma("lemmas:val_prefix_if")
def val_prefix_if(g: "seq[int]", f: "seq[int]", p: "int", n: "int"):
    """conditional form (no precondition), for use at places where the hypothesis is only assumed"""
    ensures(implies(is_prefix(g, f) and 0 <= p and 0 <= n and p + n <= len(g), val_bits(g, p, n) == val_bits(f, p, n)))
    if is_prefix(g, f) and 0 <= p and 0 <= n and p + n <= len(g):
        val_prefix(g, f, p, n)


@lemma("lemmas:loc_if")
def loc_if(fcp: "ref:FcpV2", t: "ref:Type", g: "seq[int]", f: "seq[int]", p: "int", v: "dyn"):
    ensures(implies(is_prefix(g, f) and wf_type(fcp, t) and 0 <= p and starts(fcp, t, f, p, v) and p + len(wire(fcp, t, v)) <= len(g),
                    starts(fcp, t, g, p, v)))
    option("no_unfold", ["wire", "starts", "wf_type"])
    if is_prefix(g, f) and wf_type(fcp, t) and 0 <= p and starts(fcp, t, f, p, v) and p + len(wire(fcp, t, v)) <= len(g):
        loc(fcp, t, g, f, p, v)


@lemma("lemmas:unpack_same")
def unpack_same(a: "arr", b: "arr", k: "int"):
    """two byte strings that agree on their first k bytes have the same first 8k bits"""
    requires(0 <= k and k <= arr_len(a) and k <= arr_len(b) and forall(0, k, lambda q: arr_get(a, q) == arr_get(b, q)))
    ensures(unpack_bits(a, k) == unpack_bits(b, k))
    decreases(k)
    if k > 0:
        unpack_same(a, b, k - 1)


@lemma("lemmas:unpack_mono")
def unpack_mono(b: "arr", k: "int", n: "int"):
    """the bits of the first k bytes are a prefix of the bits of the first n >= k bytes"""
    requires(0 <= k and k <= n)
    ensures(is_prefix(unpack_bits(b, k), unpack_bits(b, n)))
    decreases(n - k)
    if k < n:
        unpack_mono(b, k, n - 1)
        unpack_len(b, k)
        unpack_len(b, n - 1)
