"""Round-trip lemmas about the specification functions only (no repository code): the wire image of a conforming value,
followed by anything, `starts` with that value.  Ghost functions: a recursive call is the induction hypothesis."""


@lemma("lemmas:mod_step")
def mod_step(w: "int", k: "int"):
    """w mod 2^(k+1) = w mod 2^k + bit_k(w) * 2^k  (proved per k: linear once 2^k is a numeral)"""
    requires(0 <= k and k < 64)
    ensures(w % pw2(k + 1) == w % pw2(k) + ((w // pw2(k)) % 2) * pw2(k))
    split(k, 64)


@lemma("lemmas:mod_range")
def mod_range(w: "int", n: "int"):
    """for w in the signed or unsigned n-bit range, w mod 2^n is its unsigned image"""
    requires(1 <= n and n <= 64 and 0 - pw2(n - 1) <= w and w < pw2(n))
    ensures(w % pw2(n) == uval(w, n))
    split(n, (1, 65))


@lemma("lemmas:val_of_word_bits")
def val_of_word_bits(w: "int", n: "int", a: "seq[int]", b: "seq[int]"):
    """reading back n bits written from w gives w mod 2^n, whatever precedes and follows"""
    requires(0 <= n and n <= 64)
    ensures(val_bits(a + word_bits(w, n) + b, len(a), n) == w % pw2(n))
    decreases(n)
    if n > 0:
        val_of_word_bits(w, n - 1, a, [(w // pw2(n - 1)) % 2] + b)
        mod_step(w, n - 1)


@lemma("lemmas:chars_split")
def chars_split(cs: "seq[char]", i: "int", n: "int"):
    requires(0 <= i and i <= n)
    ensures(wire_chars(cs, n) == wire_chars(cs, i) + wire_chars_from(cs, i, n))
    decreases(n - i)
    if i < n:
        chars_split(cs, i + 1, n)


@lemma("lemmas:elems_split")
def elems_split(fcp: "ref:FcpV2", u: "ref:Type", l: "seq[dyn]", i: "int", n: "int"):
    requires(0 <= i and i <= n)
    ensures(wire_elems(fcp, u, l, n) == wire_elems(fcp, u, l, i) + wire_elems_from(fcp, u, l, i, n))
    decreases(n - i)
    option("no_unfold", ["wire"])
    if i < n:
        elems_split(fcp, u, l, i + 1, n)


@lemma("lemmas:fields_split")
def fields_split(fcp: "ref:FcpV2", fs: "seq[ref:StructField]", v: "dyn", i: "int", n: "int"):
    requires(0 <= i and i <= n)
    ensures(wire_fields(fcp, fs, v, n) == wire_fields(fcp, fs, v, i) + wire_fields_from(fcp, fs, v, i, n))
    decreases(n - i)
    option("no_unfold", ["wire"])
    if i < n:
        fields_split(fcp, fs, v, i + 1, n)


@lemma("lemmas:rt_str")
def rt_str(fcp: "ref:FcpV2", t: "ref:StringType", v: "dyn", a: "seq[int]", b: "seq[int]"):
    requires(conforms(fcp, t, v))
    ensures(starts(fcp, t, a + wire(fcp, t, v) + b, len(a), v))
    loop(0, over="range(n)",
         invariant=lambda it: forall(0, it, lambda j: val_bits(a + wire(fcp, t, v) + b, len(a) + 32 + 8 * j, 8) == d_chars(v)[j]))
    cs = d_chars(v)
    n = len(cs)
    val_of_word_bits(n, 32, a, wire_chars(cs, n) + b)
    mod_range(n, 32)
    for i in range(n):
        chars_split(cs, i, n)
        val_of_word_bits(cs[i], 8, a + word_bits(n, 32) + wire_chars(cs, i), wire_chars_from(cs, i + 1, n) + b)
        mod_range(cs[i], 8)


@lemma("lemmas:rt_elems")
def rt_elems(fcp: "ref:FcpV2", u: "ref:Type", l: "seq[dyn]", n: "int", a: "seq[int]", b: "seq[int]"):
    """every element of a list laid out back to back starts at the end of its predecessors"""
    requires(wf_type(fcp, u) and 0 <= n and n <= len(l))
    requires(forall(0, n, lambda i: conforms(fcp, u, l[i])))
    ensures(forall(0, n, lambda i: starts(fcp, u, a + wire_elems(fcp, u, l, n) + b, len(a) + len(wire_elems(fcp, u, l, i)), l[i])))
    option("no_unfold", ["wire", "starts", "conforms", "wf_type"])
    loop(0, over="range(n)",
         invariant=lambda it: forall(0, it, lambda i: starts(fcp, u, a + wire_elems(fcp, u, l, n) + b,
                                                            len(a) + len(wire_elems(fcp, u, l, i)), l[i])))
    for k in range(n):
        elems_split(fcp, u, l, k, n)
        rt(fcp, u, l[k], a + wire_elems(fcp, u, l, k), wire_elems_from(fcp, u, l, k + 1, n) + b)


@lemma("lemmas:rt_struct")
def rt_struct(fcp: "ref:FcpV2", name: "str", v: "dyn", a: "seq[int]", b: "seq[int]"):
    requires(wf_struct(fcp, name) and conforms_struct(fcp, name, v))
    ensures(starts_struct(fcp, name, a + wire_struct(fcp, name, v) + b, len(a), v))
    option("no_unfold", ["wire", "starts", "conforms", "wf_type"])
    loop(0, over="range(n)",
         invariant=lambda it: forall(0, it, lambda k: starts(
             fcp, sorted_fields(struct_of(fcp, name))[k].type, a + wire_struct(fcp, name, v) + b,
             len(a) + len(wire_fields(fcp, sorted_fields(struct_of(fcp, name)), v, k)),
             dyn_get(v, sorted_fields(struct_of(fcp, name))[k].name))))
    fs = sorted_fields(struct_of(fcp, name))
    n = len(fs)
    for k in range(n):
        fields_split(fcp, fs, v, k, n)
        rt(fcp, fs[k].type, dyn_get(v, fs[k].name), a + wire_fields(fcp, fs, v, k), wire_fields_from(fcp, fs, v, k + 1, n) + b)


@lemma("lemmas:seq_assoc")
def seq_assoc(a: "seq[int]", x: "seq[int]", y: "seq[int]", b: "seq[int]"):
    ensures(a + (x + y) + b == (a + x) + y + b)
    ensures(len(a + x) == len(a) + len(x))


@lemma("lemmas:wire_dyn_shape")
def wire_dyn_shape(fcp: "ref:FcpV2", t: "ref:DynamicArrayType", v: "dyn", a: "seq[int]", b: "seq[int]"):
    """two bracketings of a ++ count ++ elements ++ b (explicit equalities, so that the callers need no associativity reasoning)"""
    ensures(a + wire(fcp, t, v) + b
            == a + word_bits(len(d_list(v)), 32) + (wire_elems(fcp, t.underlying_type, d_list(v), len(d_list(v))) + b))
    ensures(a + wire(fcp, t, v) + b
            == (a + word_bits(len(d_list(v)), 32)) + wire_elems(fcp, t.underlying_type, d_list(v), len(d_list(v))) + b)
    ensures(len(a + word_bits(len(d_list(v)), 32)) == len(a) + 32)


@lemma("lemmas:rt_dyn_count")
def rt_dyn_count(fcp: "ref:FcpV2", t: "ref:DynamicArrayType", v: "dyn", a: "seq[int]", b: "seq[int]"):
    """the count prefix reads back as the number of elements"""
    requires(0 <= len(d_list(v)) and len(d_list(v)) < 4294967296)
    ensures(len(a) + 32 <= len(a + wire(fcp, t, v) + b) and val_bits(a + wire(fcp, t, v) + b, len(a), 32) == len(d_list(v)))
    option("no_unfold", ["wire"])
    val_of_word_bits(len(d_list(v)), 32, a, wire_elems(fcp, t.underlying_type, d_list(v), len(d_list(v))) + b)
    mod_range(len(d_list(v)), 32)
    wire_dyn_shape(fcp, t, v, a, b)


@lemma("lemmas:rt_dyn")
def rt_dyn(fcp: "ref:FcpV2", t: "ref:DynamicArrayType", v: "dyn", a: "seq[int]", b: "seq[int]"):
    requires(unfold(wf_type(fcp, t)) and unfold(conforms(fcp, t, v)))
    ensures(len(a) + 32 <= len(a + wire(fcp, t, v) + b) and val_bits(a + wire(fcp, t, v) + b, len(a), 32) == len(d_list(v)))
    ensures(forall(0, len(d_list(v)), lambda i: starts(
        fcp, t.underlying_type, a + wire(fcp, t, v) + b,
        len(a) + 32 + len(wire_elems(fcp, t.underlying_type, d_list(v), i)), d_list(v)[i])))
    ensures(unfold(starts(fcp, t, a + wire(fcp, t, v) + b, len(a), v)))
    option("no_unfold", ["wire", "starts", "conforms", "wf_type"])
    rt_dyn_count(fcp, t, v, a, b)
    rt_elems(fcp, t.underlying_type, d_list(v), len(d_list(v)), a + word_bits(len(d_list(v)), 32), b)
    wire_dyn_shape(fcp, t, v, a, b)


@lemma("lemmas:rt")
def rt(fcp: "ref:FcpV2", t: "ref:Type", v: "dyn", a: "seq[int]", b: "seq[int]"):
    """RT: the wire image of a conforming value, between any two bit strings, `starts` with that value"""
    requires(wf_type(fcp, t) and conforms(fcp, t, v))
    ensures(starts(fcp, t, a + wire(fcp, t, v) + b, len(a), v))
    option("opaque", ["wf_struct", "conforms_struct", "starts_struct", "wire_struct"])
    if isinstance(t, UnsignedType) or isinstance(t, SignedType):
        val_of_word_bits(d_int(v), num_width(t), a, b)
        mod_range(d_int(v), num_width(t))
    elif isinstance(t, FloatType):
        val_of_word_bits(f32_bits(d_float(v)), 32, a, b)
        mod_range(f32_bits(d_float(v)), 32)
    elif isinstance(t, DoubleType):
        val_of_word_bits(f64_bits(d_float(v)), 64, a, b)
        mod_range(f64_bits(d_float(v)), 64)
    elif isinstance(t, EnumType):
        val_of_word_bits(d_int(v), enum_width(enum_of(fcp, t.name)), a, b)
        mod_range(d_int(v), enum_width(enum_of(fcp, t.name)))
    elif isinstance(t, StringType):
        rt_str(fcp, t, v, a, b)
    elif isinstance(t, StructType):
        rt_struct(fcp, t.name, v, a, b)
    elif isinstance(t, ArrayType):
        rt_elems(fcp, t.underlying_type, d_list(v), t.size, a, b)
    elif isinstance(t, DynamicArrayType):
        rt_dyn(fcp, t, v, a, b)
    elif d_is_none(v):
        val_of_word_bits(0, 8, a, b)
    else:
        val_of_word_bits(1, 8, a, wire(fcp, t.underlying_type, v) + b)
        seq_assoc(a, word_bits(1, 8), wire(fcp, t.underlying_type, v), b)
        rt(fcp, t.underlying_type, v, a + word_bits(1, 8), b)


@lemma("lemmas:rep_bytes_ok")
def rep_bytes_ok(b: "arr", s: "seq[int]"):
    """the canonical packing of a bit sequence consists of bytes in 0..255"""
    requires(Rep(b, s))
    ensures(bytes_ok(b))


@lemma("lemmas:bit_eq")
def bit_eq(b: "arr", s: "seq[int]", j: "int"):
    """uniqueness of binary expansion, one bit: bit j of the bytes is bit j of the sequence they pack"""
    requires(Rep(b, s) and bytes_ok(b) and 0 <= j and j < len(s))
    ensures(bits_of_bytes(b)[j] == s[j])
    split(j % 8, 8)
    option("no_unfold", ["unpack_bits"])
    unpack_byte(b, arr_len(b), j // 8)
    unpack_allbits(b, arr_len(b))


@lemma("lemmas:rep_unpack")
def rep_unpack(b: "arr", s: "seq[int]"):
    """if b is the canonical packing of s, the 8*len(b) bits of b are s followed by the padding of the last byte"""
    requires(Rep(b, s))
    ensures(bytes_ok(b))
    ensures(bits_of_bytes(b) == s + pad_of(b, s))
    option("no_unfold", ["unpack_bits"])
    loop(0, over="range(len(s))", invariant=lambda it: forall(0, it, lambda i: bits_of_bytes(b)[i] == s[i]))
    rep_bytes_ok(b, s)
    for j in range(len(s)):
        bit_eq(b, s, j)
