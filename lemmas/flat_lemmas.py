"""Flattening lemmas (C09): the (struct, field) list that FcpV2.get('field') builds is, struct by struct, the list of all
fields; a predicate holds for every member of the flattened list iff it holds for every field of every struct."""


@lemma("lemmas:flat_len")
def flat_len(fcp: "ref:FcpV2", n: "int"):
    requires(0 <= n and n <= len(fcp.structs))
    ensures(len(flat_pairs(pair_lists(fcp), n)) >= 0)
    ensures(implies(n >= 1, len(flat_pairs(pair_lists(fcp), n))
                    == len(flat_pairs(pair_lists(fcp), n - 1)) + len(fcp.structs[n - 1].fields)))


@lemma("lemmas:flat_at")
def flat_at(fcp: "ref:FcpV2", n: "int", a: "int", b: "int"):
    """member b of struct a sits at offset len(flat(a)) + b of the flattening of the first n >= a+1 structs"""
    requires(0 <= a and a < n and n <= len(fcp.structs) and 0 <= b and b < len(fcp.structs[a].fields))
    ensures(len(flat_pairs(pair_lists(fcp), a)) + b < len(flat_pairs(pair_lists(fcp), n)))
    ensures(flat_pairs(pair_lists(fcp), n)[len(flat_pairs(pair_lists(fcp), a)) + b] == (fcp.structs[a], fcp.structs[a].fields[b]))
    decreases(n)
    flat_len(fcp, n)
    if a < n - 1:
        flat_at(fcp, n - 1, a, b)


@lemma("lemmas:flat_all_1")
def flat_all_1(fcp: "ref:FcpV2"):
    """every member of the flattened list is fine  ==>  every field of every struct is fine"""
    ensures(implies(flat_ok(fcp, len(fcp.structs)), fields_ok(fcp, len(fcp.structs))))
    loop(0, over="range(n)", invariant=lambda it: implies(flat_ok(fcp, n), fields_ok(fcp, it)))
    loop(1, over="range(m)",
         invariant=lambda it: implies(flat_ok(fcp, n), forall(0, it, lambda b1: not dup_field(fcp.structs[a], fcp.structs[a].fields[b1]))))
    n = len(fcp.structs)
    for a in range(n):
        m = len(fcp.structs[a].fields)
        for b in range(m):
            flat_at(fcp, n, a, b)


@lemma("lemmas:flat_all_2")
def flat_all_2(fcp: "ref:FcpV2", n: "int"):
    """every field of every struct is fine  ==>  every member of the flattened list is fine"""
    requires(0 <= n and n <= len(fcp.structs))
    ensures(implies(fields_ok(fcp, n), flat_ok(fcp, n)))
    decreases(n)
    flat_len(fcp, n)
    if n >= 1:
        flat_all_2(fcp, n - 1)
