"""Inductive facts about the bit-level spec functions, proved once (ghost functions: the recursive call is the induction
hypothesis) and attached automatically to every application of the spec function they talk about."""


@lemma("lemmas:word_bits_len")
def word_bits_len(w: "int", n: "int"):
    option("auto_for", "word_bits")
    ensures(len(word_bits(w, n)) == (n if n > 0 else 0))
    decreases(n)
    if n > 0:
        word_bits_len(w, n - 1)


@lemma("lemmas:wire_chars_len")
def wire_chars_len(cs: "seq[char]", k: "int"):
    option("auto_for", "wire_chars")
    ensures(len(wire_chars(cs, k)) == (8 * k if k > 0 else 0))
    decreases(k)
    if k > 0:
        wire_chars_len(cs, k - 1)


@assumed("lemmas:float_images")
def float_images(x: "float"):
    note("IEEE-754: binary32/binary64 images are 32/64-bit words; the image determines a representable value")
    option("auto_for", "f32_bits")
    ensures(0 <= f32_bits(x) and f32_bits(x) < 4294967296)
    ensures(implies(is_f32(x), of_f32_bits(f32_bits(x)) == x))


@assumed("lemmas:double_images")
def double_images(x: "float"):
    note("IEEE-754 binary64: python floats are binary64, the image determines the value (NaN payloads not tracked)")
    option("auto_for", "f64_bits")
    ensures(0 <= f64_bits(x) and f64_bits(x) < 18446744073709551616)
    ensures(of_f64_bits(f64_bits(x)) == x)


@lemma("lemmas:unpack_len")
def unpack_len(b: "arr", k: "int"):
    option("auto_for", "unpack_bits")
    ensures(len(unpack_bits(b, k)) == (8 * k if k > 0 else 0))
    decreases(k)
    if k > 0:
        unpack_len(b, k - 1)


@lemma("lemmas:unpack_allbits")
def unpack_allbits(b: "arr", k: "int"):
    ensures(all_bits(unpack_bits(b, k)))
    decreases(k)
    if k > 0:
        unpack_allbits(b, k - 1)


@lemma("lemmas:byte_expand")
def byte_expand(x: "int"):
    """binary expansion of a byte (256 ground cases)"""
    requires(0 <= x and x < 256)
    ensures(x == x % 2 + 2 * ((x // 2) % 2) + 4 * ((x // 4) % 2) + 8 * ((x // 8) % 2) + 16 * ((x // 16) % 2)
            + 32 * ((x // 32) % 2) + 64 * ((x // 64) % 2) + 128 * ((x // 128) % 2))
    split(x, 256)


@lemma("lemmas:unpack_byte")
def unpack_byte(b: "arr", k: "int", q: "int"):
    """binary expansion: byte q of the packing of the first k bytes' bits is byte q"""
    requires(bytes_ok(b) and 0 <= q and q < k and k <= arr_len(b))
    ensures(byte_of(unpack_bits(b, k), q) == arr_get(b, q))
    decreases(k)
    if q < k - 1:
        unpack_byte(b, k - 1, q)
    else:
        byte_expand(arr_get(b, q))


@lemma("lemmas:unpack_facts")
def unpack_facts(b: "arr", k: "int"):
    requires(bytes_ok(b) and 0 <= k and k <= arr_len(b))
    ensures(len(unpack_bits(b, k)) == 8 * k)
    ensures(all_bits(unpack_bits(b, k)))
    ensures(forall(0, k, lambda q: byte_of(unpack_bits(b, k), q) == arr_get(b, q)))
    option("no_unfold", ["unpack_bits"])
    loop(0, over="range(k)", invariant=lambda it: forall(0, it, lambda q: byte_of(unpack_bits(b, k), q) == arr_get(b, q)))
    unpack_allbits(b, k)
    for q in range(k):
        unpack_byte(b, k, q)


@lemma("lemmas:unpack_rep")
def unpack_rep(b: "arr"):
    """a string of bytes in 0..255 is the canonical packing of its 8*len bits"""
    requires(bytes_ok(b))
    ensures(Rep(b, bits_of_bytes(b)) and len(bits_of_bytes(b)) == 8 * arr_len(b))
    unpack_facts(b, arr_len(b))


@lemma("lemmas:max_is_enum_max")
def max_is_enum_max(e: "ref:Enum", k: "int"):
    """the builtin maximum of the enumerator values equals the spec's largest enumerator (values are non-negative)"""
    requires(enum_values_ok(e) and 0 <= k and k <= len(e.enumeration))
    ensures(py_max([x.value for x in e.enumeration], k, 0) == enum_max_from(e.enumeration, k))
    ensures(enum_max_from(e.enumeration, k) >= 0)
    decreases(k)
    if k > 0:
        max_is_enum_max(e, k - 1)
