"""C15 as a statement about two schemas: the wire image (and therefore the bytes encode() returns) does not depend on the
declaration order of struct fields.  Structural induction over the type; termination of the induction is trusted (as for rt)."""


@lemma("lemmas:twin_fields")
def twin_fields(f1: "ref:FcpV2", f2: "ref:FcpV2", fs: "seq[ref:StructField]", v: "dyn", k: "int"):
    requires(twin(f1, f2) and 0 <= k and k <= len(fs))
    ensures(wire_fields(f1, fs, v, k) == wire_fields(f2, fs, v, k))
    decreases(k)
    option("no_unfold", ["wire"])
    if k > 0:
        twin_fields(f1, f2, fs, v, k - 1)
        twin_wire(f1, f2, field_at(fs, k - 1).type, dyn_get(v, field_at(fs, k - 1).name))


@lemma("lemmas:twin_elems")
def twin_elems(f1: "ref:FcpV2", f2: "ref:FcpV2", u: "ref:Type", l: "seq[dyn]", k: "int"):
    requires(twin(f1, f2))
    ensures(wire_elems(f1, u, l, k) == wire_elems(f2, u, l, k))
    decreases(k)
    option("no_unfold", ["wire"])
    if k > 0:
        twin_elems(f1, f2, u, l, k - 1)
        twin_wire(f1, f2, u, elem_at(l, k - 1))


@lemma("lemmas:twin_wire")
def twin_wire(f1: "ref:FcpV2", f2: "ref:FcpV2", t: "ref:Type", v: "dyn"):
    """the wire image of v at type t is the same under two schemas that are declaration-order twins"""
    requires(twin(f1, f2))
    ensures(wire(f1, t, v) == wire(f2, t, v))
    hint(t.name)
    option("no_unfold", ["wire_fields", "wire_elems"])
    if isinstance(t, StructType):
        twin_fields(f1, f2, sorted_fields(struct_of(f1, t.name)), v, len(sorted_fields(struct_of(f1, t.name))))
    elif isinstance(t, ArrayType):
        twin_elems(f1, f2, t.underlying_type, d_list(v), t.size)
    elif isinstance(t, DynamicArrayType):
        twin_elems(f1, f2, t.underlying_type, d_list(v), len(d_list(v)))
    elif isinstance(t, OptionalType):
        twin_wire(f1, f2, t.underlying_type, v)


@lemma("lemmas:rep_unique")
def rep_unique(a: "arr", b: "arr", s: "seq[int]"):
    """a bit sequence has exactly one canonical packing"""
    requires(Rep(a, s) and Rep(b, s))
    ensures(arr_len(a) == arr_len(b) and forall(0, arr_len(a), lambda q: arr_get(a, q) == arr_get(b, q)))
