"""The builtin sum of a list whose i-th entry is the declared size of the i-th field is the spec's decl_sum."""


@lemma("lemmas:sum_pointwise")
def sum_pointwise(s: "seq[int]", fs: "seq[ref:StructField]", n: "int"):
    requires(0 <= n and n <= len(fs) and n <= len(s))
    requires(forall(0, n, lambda i: s[i] == decl_bits(fs[i].type)))
    ensures(py_sum(s, n) == decl_sum(fs, n))
    decreases(n)
    if n > 0:
        sum_pointwise(s, fs, n - 1)
