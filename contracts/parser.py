"""Contracts for the parse entry points of fcp/parser.py (C11): no exception escapes."""

OPAQUE = ["ext:pathlib.Path", "ext:lark.Lark"]

CLASSES = {
    "Logger": {"kind": "heap", "module": "fcp.error", "fields": {"sources": "dyn", "enable_file_paths": "bool"}},
}


@assumed("opaque:lark.Lark().parse")
def lark_parse(source: "any") -> "any":
    note("lark 1.3.1 Lark.parse (Earley, dynamic lexer): terminates; raises only UnexpectedCharacters or UnexpectedEOF")
    may_raise(UnexpectedCharacters)
    may_raise(UnexpectedEOF)


@assumed("fcp.parser:FcpV2Transformer.__init__")
def transformer_init(self: "any", filename: "any", parser_context: "any", filesystem_proxy: "any", error_logger: "any" = None):
    note("straight-line assignments, one read through the filesystem proxy (same file that was just read) and one dict store")


@assumed("opaque:FcpV2Transformer().transform")
def lark_transform(tree: "any") -> "result[any,any]":
    note("lark Transformer.transform calls the callbacks bottom-up and wraps any exception of a callback into VisitError; "
         "the start callback returns a Result (its @catch turns failed attempts into the Err)")
    may_raise(VisitError)


@assumed("fcp.error:Logger.add_source")
def add_source(self: "any", name: "any", source: "any"):
    note("one dict store")


@assumed("fcp.error:Logger.log_lark")
def log_lark(self: "any", filename: "any", exception: "any") -> "str":
    note("renders a lark exception; reads lark's considered_rules structure for UnexpectedCharacters")


@assumed("fcp.parser:InMemoryFileSystemProxy.read")
def mem_read(self: "any", filename: "any") -> "str":
    note("dict lookup of the one file the entry point registered under the same key")


@assumed("fcp.parser:IFileSystemProxy.read")
def proxy_read(self: "any", filename: "any") -> "str":
    note("the file named by the caller exists and is readable (a missing root file is outside the property's domain: inputs are texts)")


@contract("fcp.parser:_get_fcp")
def _get_fcp(filename: "any", filesystem_proxy: "heap:IFileSystemProxy", logger: "heap:Logger") -> "result[any,any]":
    note("the only exception allowed to leave is the attempt() of an Err result, which the @catch of the two entry points converts")
    may_raise(ResultAttemptError)
    ensures(result.is_ok() or result.is_err())


@contract("fcp.parser:get_fcp_from_string")
def get_fcp_from_string(source: "str", logger: "heap:Logger" = None) -> "any":
    note("no raises clause: every path that raises is an obligation failure")
    ensures(result.is_ok() or result.is_err())


INLINE = ["fcp.parser:_get_meta", "fcp.parser:Token.__init__", "fcp.specs.metadata:MetaData.__init__",
          "fcp.specs.type:StructType.__init__", "fcp.specs.type:EnumType.__init__"]


@contract("fcp.parser:FcpV2Transformer.composed_type")
def composed_type(self: "FcpV2Transformer", tree: "ref:LarkTree") -> "any":
    note("C08: a user type name is tagged with the kind of the declaration it resolves to among those collected SO FAR "
         "(structs before enums), and an unknown name is an error that names the type")
    requires(len(tree.children) >= 1)
    ensures(implies(has_struct_in(self.fcp.structs, tree.children[0]),
                    result.is_ok() and cls_name(result.unwrap()) == "StructType" and result.unwrap().name == tree.children[0]))
    ensures(implies(not has_struct_in(self.fcp.structs, tree.children[0]) and has_enum_in(self.fcp.enums, tree.children[0]),
                    result.is_ok() and cls_name(result.unwrap()) == "EnumType" and result.unwrap().name == tree.children[0]))
    ensures(implies(not has_struct_in(self.fcp.structs, tree.children[0]) and not has_enum_in(self.fcp.enums, tree.children[0]),
                    result.is_err() and str_contains(result.err().msg[0][0], tree.children[0])))
