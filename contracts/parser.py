"""Contracts for the parse entry points of fcp/parser.py (C11): no exception escapes."""

OPAQUE = ["ext:pathlib.Path", "ext:lark.Lark"]
OPAQUE_METHODS = ["resolve"]
EFFECTS = ["append"]

CLASSES = {
    "Logger": {"kind": "heap", "module": "fcp.error", "fields": {"sources": "dyn", "enable_file_paths": "bool"}},
}


@assumed("opaque:lark.Lark().parse")
def lark_parse(source: "any") -> "any":
    note("lark 1.3.1 Lark.parse (Earley, dynamic lexer): terminates; raises only UnexpectedCharacters or UnexpectedEOF")
    may_raise(UnexpectedCharacters)
    may_raise(UnexpectedEOF)


@assumed("fcp.parser:FcpV2Transformer.__init__")
def transformer_init(self: "any", filename: "any", parser_context: "any", filesystem_proxy: "any", error_logger: "any" = None):
    note("straight-line assignments, one read through the filesystem proxy (same file that was just read) and one dict store")


@contract("fcp.error:Logger.add_source")
def add_source(self: "Logger", name: "str", source: "str"):
    note("one dict store: afterwards the logger holds `source` under `name` and every other entry is unchanged")
    modifies(self.sources)
    ensures(dyn_get(self.sources, name) == to_dyn(source))
    ensures(forall("str", lambda k: implies(k != name, dyn_get(self.sources, k) == dyn_get(old(self.sources), k))))


@assumed("fcp.error:Logger.log_lark")
def log_lark(self: "any", filename: "any", exception: "any") -> "str":
    note("renders a lark exception; reads lark's considered_rules structure for UnexpectedCharacters")


@assumed("fcp.parser:InMemoryFileSystemProxy.read")
def mem_read(self: "any", filename: "any") -> "str":
    note("dict lookup of the one file the entry point registered under the same key")


@assumed("fcp.parser:IFileSystemProxy.read")
def proxy_read(self: "any", filename: "any") -> "str":
    note("the file named by the caller exists and is readable (a missing root file is outside the property's domain: inputs are texts)")


@contract("fcp.parser:_get_fcp")
def _get_fcp(filename: "any", filesystem_proxy: "heap:IFileSystemProxy", logger: "heap:Logger") -> "result[any,any]":
    note("the only exception allowed to leave is the attempt() of an Err result, which the @catch of the two entry points converts")
    modifies(logger.sources)
    may_raise(ResultAttemptError)
    ensures(result.is_ok() or result.is_err())
    # C11: when the transformer is started, the logger holds the text that was read under the path the transformer records in the
    # metadata of every node (so an error that cites a node of this file can be rendered from the right source)
    ensures_effects(implies(effect_count("call:FcpV2Transformer.__init__") == 1,
                            dyn_get(logger.sources, str(effect_arg("call:FcpV2Transformer.__init__", 0, 1)))
                            == to_dyn(effect_result("call:IFileSystemProxy.read", 0))))


@contract("fcp.parser:get_fcp_from_string")
def get_fcp_from_string(source: "str", logger: "heap:Logger" = None) -> "any":
    note("no raises clause: every path that raises is an obligation failure")
    modifies(logger.sources)
    ensures(result.is_ok() or result.is_err())


INLINE = ["fcp.parser:_get_meta", "fcp.parser:Token.__init__", "fcp.specs.metadata:MetaData.__init__",
          "fcp.specs.type:StructType.__init__", "fcp.specs.type:EnumType.__init__"]


@contract("fcp.parser:FcpV2Transformer.composed_type")
def composed_type(self: "FcpV2Transformer", tree: "ref:LarkTree") -> "any":
    note("C08: a user type name is tagged with the kind of the declaration it resolves to among those collected SO FAR "
         "(structs before enums), and an unknown name is an error that names the type")
    requires(len(tree.children) >= 1)
    ensures(implies(has_struct_in(self.fcp.structs, tree.children[0]),
                    result.is_ok() and cls_name(result.unwrap()) == "StructType" and result.unwrap().name == tree.children[0]))
    ensures(implies(not has_struct_in(self.fcp.structs, tree.children[0]) and has_enum_in(self.fcp.enums, tree.children[0]),
                    result.is_ok() and cls_name(result.unwrap()) == "EnumType" and result.unwrap().name == tree.children[0]))
    ensures(implies(not has_struct_in(self.fcp.structs, tree.children[0]) and not has_enum_in(self.fcp.enums, tree.children[0]),
                    result.is_err() and str_contains(result.err().msg[0][0], tree.children[0])))


@assumed("ext:read_file")
def read_file(path: "any") -> "str":
    note("`with open(p) as f: s = f.read()`: returns the file's text or raises FileNotFoundError (other OS errors are outside the domain)")
    may_raise(FileNotFoundError)


@assumed("opaque:FcpV2Transformer().transform")
def nested_transform(tree: "any") -> "result[ref:FcpV2,heap:FcpError]":
    note("see lark_transform above: the transformer's start() callback returns Ok(schema) or the Err of a failed attempt; a callback "
         "exception is wrapped into VisitError")
    may_raise(VisitError)


@contract("fcp.parser:FcpV2Transformer.mod_expr")
def mod_expr(self: "FcpV2Transformer", tree: "ref:LarkTree") -> "any":
    note("C20/C11: an imported module is parsed by a nested transformer and merged at the point of the import; every failure is an error value")
    modifies(self.fcp.structs, self.fcp.enums, self.fcp.impls, self.fcp.services, self.fcp.devices, self.error_logger.sources)
    may_raise(VisitError)
    ensures(result.is_ok() or result.is_err())
    # transparency: on success the importing schema is the old one followed by the module's declarations, list by list
    ensures_effects(implies(result.is_ok(),
                            effect_count("call:FcpV2Transformer().transform") == 1
                            and self.fcp.structs == old(self.fcp.structs) + effect_result("call:FcpV2Transformer().transform", 0).unwrap().structs
                            and self.fcp.enums == old(self.fcp.enums) + effect_result("call:FcpV2Transformer().transform", 0).unwrap().enums
                            and self.fcp.impls == old(self.fcp.impls) + effect_result("call:FcpV2Transformer().transform", 0).unwrap().impls
                            and self.fcp.services == old(self.fcp.services) + effect_result("call:FcpV2Transformer().transform", 0).unwrap().services
                            and self.fcp.devices == old(self.fcp.devices) + effect_result("call:FcpV2Transformer().transform", 0).unwrap().devices))
    # C08: an error found inside the module is CHAINED, not replaced: the returned error is the module's own error object (which
    # names the type and the enclosing struct, composed_type / struct callbacks) with one more message appended to it
    ensures_effects(implies(effect_count("call:FcpV2Transformer().transform") == 1
                            and effect_result("call:FcpV2Transformer().transform", 0).is_err(),
                            result.is_err() and result.err() is effect_result("call:FcpV2Transformer().transform", 0).err()
                            and effect_count("append") == 1))
    # C11: the module's text is registered with the logger before it is parsed, so that a syntax error citing the module can be rendered
    ensures_effects(implies(effect_count("call:lark.Lark().parse") + effect_count("raise:lark.Lark().parse") >= 1,
                            effect_count("call:Logger.add_source") >= 1
                            and effect_index("call:Logger.add_source", 0)
                            < (effect_index("call:lark.Lark().parse", 0) if effect_count("call:lark.Lark().parse") == 1
                               else effect_index("raise:lark.Lark().parse", 0))))
    # C11 (F24): when the nested transformer is started, the logger holds the module's text under the very path the transformer
    # records in the metadata of the module's nodes (the key error rendering looks up first), so that an error citing the
    # module can be rendered even if another file with the same name was registered in between
    ensures_effects(implies(effect_count("call:FcpV2Transformer.__init__") == 1,
                            dyn_get(self.error_logger.sources, str(effect_arg("call:FcpV2Transformer.__init__", 0, 1)))
                            == to_dyn(effect_result("call:read_file", 0))))
    # C11 (F25): of the logger's entries, only those under the module's own path (as written and resolved) are replaced by this
    # function itself; in particular not the entry under the module's bare file name, which may be the key of another source
    ensures_effects(implies(effect_count("call:FcpV2Transformer.__init__") == 1,
                            forall("str", lambda k: implies(
                                k != str(self.path / (".".join(tree.children).replace(".", "/") + ".fcp"))
                                and k != str(effect_arg("call:FcpV2Transformer.__init__", 0, 1)),
                                dyn_get(self.error_logger.sources, k) == dyn_get(old(self.error_logger.sources), k)))))
    # errors: a missing file, a syntax error in the module and an error returned by the nested transformer all give Err and leave the schema alone
    ensures_effects(implies(effect_count("raise:read_file") == 1, result.is_err()))
    ensures_effects(implies(effect_count("raise:lark.Lark().parse") == 1, result.is_err()))
    ensures(implies(result.is_err(), self.fcp.structs == old(self.fcp.structs) and self.fcp.enums == old(self.fcp.enums)
                    and self.fcp.impls == old(self.fcp.impls) and self.fcp.services == old(self.fcp.services)
                    and self.fcp.devices == old(self.fcp.devices)))
