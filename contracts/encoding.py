"""Contracts for fcp/encoding.py (C04, C14)."""

INLINE = ["fcp.encoding:Value.__init__", "fcp.encoding:PackedEncoderContext.__init__", "fcp.encoding:PackedEncoder.__init__"]


@contract("fcp.specs.impl:Impl.get_signal")
def get_signal(self: "ref:Impl", name: "str") -> "maybe[ref:SignalBlock]":
    ensures(result.is_some() == (first_signal_from(self.signals, name, 0) >= 0))
    ensures(implies(first_signal_from(self.signals, name, 0) >= 0,
                    result.unwrap() == self.signals[first_signal_from(self.signals, name, 0)]))
    loop(0, over="self.signals",
         invariant=lambda it: first_signal_from(self.signals, name, 0) == first_signal_from(self.signals, name, it))


@contract("fcp.encoding:PackedEncoder._get_type_length")
def _get_type_length(self: "PackedEncoder", fcp: "ref:FcpV2", type: "ref:Type") -> "int":
    requires(wf_type(fcp, type))
    raises(ValueError, iff=not fixed_size(fcp, type))
    ensures(result == type_width(fcp, type))


@contract("fcp.encoding:PackedEncoder._generate_signal")
def _generate_signal(self: "PackedEncoder", field: "ref:StructField", extension: "ref:Impl", prefix: "str" = ""):
    requires(tiled(self.encoding, self.bitstart, self.gnames) and leafy(self.fcp, self.encoding, self.ctx.unroll_arrays))
    requires(wf_type(self.fcp, field.type))
    modifies(self.encoding, self.bitstart, self.gnames)
    may_raise(ValueError)
    no_raise_if(all_fixed(self.fcp, field.type, self.ctx.unroll_arrays))
    must_raise_if(not all_fixed(self.fcp, field.type, self.ctx.unroll_arrays))
    option("no_unfold", ["type_width", "enum_width"])
    ghost_set(self.gnames, self.gnames + ([prefix + field.name] if is_leaf(field.type, self.ctx.unroll_arrays) else []))
    ensures(tiled(self.encoding, self.bitstart, self.gnames) and leafy(self.fcp, self.encoding, self.ctx.unroll_arrays))
    ensures(self.gnames == old(self.gnames) + field_names(self.fcp, field.type, field.name, prefix, self.ctx.unroll_arrays))
    ensures(len(self.encoding) >= len(old(self.encoding)) and seq_extract(self.encoding, 0, len(old(self.encoding))) == old(self.encoding))
    # the leaf case: one piece, with the field's wire width, at the old cursor, carrying the options of the block named like the field
    ensures(implies(is_leaf(field.type, self.ctx.unroll_arrays),
                    len(self.encoding) == len(old(self.encoding)) + 1
                    and leaf_ok(self.fcp, self.encoding[len(self.encoding) - 1], field, extension, prefix, old(self.bitstart))))


@contract("fcp.encoding:PackedEncoder._generate_struct")
def _generate_struct(self: "PackedEncoder", struct: "ref:Struct", extension: "ref:Impl", prefix: "str" = ""):
    requires(tiled(self.encoding, self.bitstart, self.gnames) and leafy(self.fcp, self.encoding, self.ctx.unroll_arrays))
    requires(forall(0, len(sorted_fields(struct)), lambda k: wf_type(self.fcp, sorted_fields(struct)[k].type)))
    modifies(self.encoding, self.bitstart, self.gnames)
    may_raise(ValueError)
    no_raise_if(fields_fixed(self.fcp, sorted_fields(struct), self.ctx.unroll_arrays, len(sorted_fields(struct))))
    must_raise_if(not fields_fixed(self.fcp, sorted_fields(struct), self.ctx.unroll_arrays, len(sorted_fields(struct))))
    option("no_unfold", ["type_width", "enum_width"])
    ensures(tiled(self.encoding, self.bitstart, self.gnames) and leafy(self.fcp, self.encoding, self.ctx.unroll_arrays))
    ensures(self.gnames == old(self.gnames) + struct_names(self.fcp, sorted_fields(struct), prefix, self.ctx.unroll_arrays,
                                                             len(sorted_fields(struct))))
    ensures(len(self.encoding) >= len(old(self.encoding)) and seq_extract(self.encoding, 0, len(old(self.encoding))) == old(self.encoding))
    loop(0, over="sorted(struct.fields, key=lambda field: field.field_id)",
         invariant=lambda it: tiled(self.encoding, self.bitstart, self.gnames) and leafy(self.fcp, self.encoding, self.ctx.unroll_arrays)
         and self.gnames == old(self.gnames) + struct_names(self.fcp, sorted_fields(struct), prefix, self.ctx.unroll_arrays, it)
         and len(self.encoding) >= len(old(self.encoding)) and seq_extract(self.encoding, 0, len(old(self.encoding))) == old(self.encoding)
         and fields_fixed(self.fcp, sorted_fields(struct), self.ctx.unroll_arrays, it))


@contract("fcp.encoding:PackedEncoder._generate_array_type")
def _generate_array_type(self: "PackedEncoder", type: "ref:ArrayType", field: "ref:StructField", extension: "ref:Impl", prefix: "str" = ""):
    requires(tiled(self.encoding, self.bitstart, self.gnames) and leafy(self.fcp, self.encoding, self.ctx.unroll_arrays))
    requires(wf_type(self.fcp, type) and self.ctx.unroll_arrays)
    modifies(self.encoding, self.bitstart, self.gnames)
    may_raise(ValueError)
    no_raise_if(type.size <= 0 or all_fixed(self.fcp, type.underlying_type, True))
    must_raise_if(type.size > 0 and not all_fixed(self.fcp, type.underlying_type, True))
    option("no_unfold", ["type_width", "enum_width"])
    ensures(tiled(self.encoding, self.bitstart, self.gnames) and leafy(self.fcp, self.encoding, self.ctx.unroll_arrays))
    ensures(self.gnames == old(self.gnames) + arr_names(self.fcp, type.underlying_type, field.name, prefix, True, type.size))
    ensures(len(self.encoding) >= len(old(self.encoding)) and seq_extract(self.encoding, 0, len(old(self.encoding))) == old(self.encoding))
    loop(0, over="range(type.size)",
         invariant=lambda it: tiled(self.encoding, self.bitstart, self.gnames) and leafy(self.fcp, self.encoding, self.ctx.unroll_arrays)
         and self.gnames == old(self.gnames) + arr_names(self.fcp, type.underlying_type, field.name, prefix, True, it)
         and len(self.encoding) >= len(old(self.encoding)) and seq_extract(self.encoding, 0, len(old(self.encoding))) == old(self.encoding)
         and (it <= 0 or all_fixed(self.fcp, type.underlying_type, True)))


@contract("fcp.encoding:PackedEncoder._generate_compound_type")
def _generate_compound_type(self: "PackedEncoder", type: "ref:StructType", extension: "ref:Impl", prefix: "str" = ""):
    requires(tiled(self.encoding, self.bitstart, self.gnames) and leafy(self.fcp, self.encoding, self.ctx.unroll_arrays))
    requires(wf_struct(self.fcp, type.name))
    modifies(self.encoding, self.bitstart, self.gnames)
    may_raise(ValueError)
    no_raise_if(all_fixed(self.fcp, type, self.ctx.unroll_arrays))
    must_raise_if(not all_fixed(self.fcp, type, self.ctx.unroll_arrays))
    ensures(tiled(self.encoding, self.bitstart, self.gnames) and leafy(self.fcp, self.encoding, self.ctx.unroll_arrays))
    ensures(self.gnames == old(self.gnames) + struct_names(self.fcp, sorted_fields(struct_of(self.fcp, type.name)), prefix,
                                                             self.ctx.unroll_arrays, len(sorted_fields(struct_of(self.fcp, type.name)))))
    ensures(len(self.encoding) >= len(old(self.encoding)) and seq_extract(self.encoding, 0, len(old(self.encoding))) == old(self.encoding))


@contract("fcp.encoding:PackedEncoder._generate")
def _generate(self: "PackedEncoder", type: "ref:StructType", extension: "ref:Impl", prefix: "str" = ""):
    requires(tiled(self.encoding, self.bitstart, self.gnames) and leafy(self.fcp, self.encoding, self.ctx.unroll_arrays))
    requires(wf_struct(self.fcp, type.name))
    modifies(self.encoding, self.bitstart, self.gnames)
    may_raise(ValueError)
    no_raise_if(all_fixed(self.fcp, type, self.ctx.unroll_arrays))
    must_raise_if(not all_fixed(self.fcp, type, self.ctx.unroll_arrays))
    ensures(tiled(self.encoding, self.bitstart, self.gnames) and leafy(self.fcp, self.encoding, self.ctx.unroll_arrays))
    ensures(self.gnames == old(self.gnames) + struct_names(self.fcp, sorted_fields(struct_of(self.fcp, type.name)), prefix,
                                                             self.ctx.unroll_arrays, len(sorted_fields(struct_of(self.fcp, type.name)))))
    ensures(len(self.encoding) >= len(old(self.encoding)) and seq_extract(self.encoding, 0, len(old(self.encoding))) == old(self.encoding))


@contract("fcp.encoding:PackedEncoder.generate")
def generate(self: "PackedEncoder", impl: "ref:Impl") -> "seq[ref:Value]":
    note("no old(...) in the postcondition: the layout is a function of the schema, the binding and the context only")
    requires(wf_struct(self.fcp, impl.type))
    modifies(self.encoding, self.bitstart, self.gnames)
    may_raise(ValueError)
    no_raise_if(all_fixed_struct(self.fcp, impl.type, self.ctx.unroll_arrays))
    must_raise_if(not all_fixed_struct(self.fcp, impl.type, self.ctx.unroll_arrays))
    ghost_before("PackedEncoder._generate", self.gnames, seq_empty("str"))
    ensures(result == self.encoding and tiled(result, self.bitstart, self.gnames) and leafy(self.fcp, result, self.ctx.unroll_arrays))
    ensures(self.gnames == struct_names(self.fcp, sorted_fields(struct_of(self.fcp, impl.type)), "", self.ctx.unroll_arrays,
                                        len(sorted_fields(struct_of(self.fcp, impl.type)))))


@contract("fcp.specs.v2:FcpV2.get_type")
def get_type(self: "ref:FcpV2", type: "ref:Type") -> "maybe[ref]":
    note("structs are searched before enums; the result is the first declaration with the type's name")
    ensures(implies(isinstance(type, StructType) and has_struct(self, type.name),
                    result.is_some() and result.unwrap() == struct_of(self, type.name) and cls_name(result.unwrap()) == "Struct"))
    loop(0, over="self.structs + self.enums",
         invariant=lambda it: implies(isinstance(type, StructType),
                                      first_struct_from(self.structs, type.name, 0)
                                      == first_struct_from(self.structs, type.name, it if it <= len(self.structs) else len(self.structs))))
