"""Contracts for the Python half of the C generator (C06): the arguments the templates receive are the layout's."""


@contract("fcp_can_c.can_c_writer:ceil_to_power_of_2")
def ceil_to_power_of_2(x: "int") -> "int":
    note("carrier width for a field of x bits: 8, 16, 32 or 64 (bit tricks: proved by a complete case split over 1..64)")
    requires(1 <= x and x <= 64)
    ensures(result == (8 if x <= 8 else (16 if x <= 16 else (32 if x <= 32 else 64))))
    split(x, (1, 65))
