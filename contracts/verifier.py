"""Contracts for fcp/verifier.py (C09): every check's verdict is exactly its clause of the well-formedness spec."""

OPAQUE = ["ext:inspect.stack", "ext:inspect.getframeinfo", "ext:pathlib.Path"]

CLASSES = {
    "FcpError": {"kind": "heap", "module": "fcp.error", "fields": {"msg": "any"}},
}


@contract("fcp.verifier:make_general_verifier.check_duplicate_typenames")
def check_duplicate_typenames(self: "any", fcp: "ref:FcpV2", type: "ref:Struct") -> "result[none,any]":
    note("the node is a struct or an enum; only its name is read")
    ensures(result.is_err() == dup_typename(fcp, type))
    ensures(result.is_ok() == (not dup_typename(fcp, type)))


@contract("fcp.verifier:make_general_verifier.check_duplicate_struct_fields")
def check_duplicate_struct_fields(self: "any", fcp: "ref:FcpV2", left: "ref:FieldNode") -> "result[none,any]":
    note("the node is the pair (struct, field) that FcpV2.get('field') produces")
    ensures(result.is_err() == dup_field(left.struct, left.field))
    ensures(result.is_ok() == (not dup_field(left.struct, left.field)))


@contract("fcp.verifier:make_general_verifier.check_struct_contains_struct_fields")
def check_struct_contains_struct_fields(self: "any", fcp: "ref:FcpV2", struct: "ref:Struct") -> "result[none,any]":
    ensures(result.is_err() == empty_struct(struct))
    ensures(result.is_ok() == (not empty_struct(struct)))


@contract("fcp.verifier:make_general_verifier.check_enum_duplicate_enumerations_names")
def check_enum_duplicate_enumerations_names(self: "any", fcp: "ref:FcpV2", enum: "ref:Enum") -> "result[none,any]":
    ensures(result.is_err() == dup_enumerator_name(enum))
    ensures(result.is_ok() == (not dup_enumerator_name(enum)))
    loop(0, over="enum.enumeration",
         invariant=lambda it: forall(0, it, lambda i: not (count([x.name for x in enum.enumeration], enum.enumeration[i].name) > 1)))


@contract("fcp.verifier:make_general_verifier.check_enum_duplicate_enumerations_values")
def check_enum_duplicate_enumerations_values(self: "any", fcp: "ref:FcpV2", enum: "ref:Enum") -> "result[none,any]":
    ensures(result.is_err() == dup_enumerator_value(enum))
    ensures(result.is_ok() == (not dup_enumerator_value(enum)))
    loop(0, over="enum.enumeration",
         invariant=lambda it: forall(0, it, lambda i: not (count([x.value for x in enum.enumeration], enum.enumeration[i].value) > 1)))


@contract("fcp.verifier:make_general_verifier.check_duplicate_impl")
def check_duplicate_impl(self: "any", fcp: "ref:FcpV2", left: "ref:Impl") -> "result[none,any]":
    ensures(result.is_err() == dup_impl(fcp, left))
    ensures(result.is_ok() == (not dup_impl(fcp, left)))


INLINE = ["fcp.specs.v2:FcpV2.get", "fcp.specs.v2:_flatten", "fcp.error:error", "fcp.error:FcpError.__init__", "fcp.error:FcpError.results_in", "fcp.specs.v2:FcpV2.get_types",
          "fcp.verifier:make_general_verifier", "fcp.verifier:Verifier.__init__", "fcp.verifier:Verifier.register",
          "fcp.verifier:register", "fcp_dbc.generator:Generator.register_checks",
          "fcp_dbc.generator:Generator.__init__", "fcp_can_c.generator:Generator.register_checks",
          "fcp_can_c.generator:Generator.__init__"]


@contract("fcp.verifier:make_general_verifier.check_device_contains_services")
def check_device_contains_services(self: "any", fcp: "ref:FcpV2", device: "ref:Device") -> "result[none,any]":
    note("the check ignores its node and scans every device: its verdict is the schema-wide clause")
    option("inline_calls", ["fcp.specs.v2:FcpV2.get"])
    ensures(result.is_err() == missing_service(fcp))
    ensures(result.is_ok() == (not missing_service(fcp)))
    loop(0, over="fcp.get('device').unwrap()",
         invariant=lambda it: forall(0, it, lambda k: device_ok(fcp, fcp.devices[k])))
    loop(1, over="device_services",
         invariant=lambda it: forall(0, it, lambda j: seq_contains(service_names(fcp), device_services[j])))


@contract("fcp.verifier:Verifier.run_checks", inline=True)
def run_checks(self: "Verifier", category: "str", fcp: "ref:FcpV2"):
    note("inlined into the C09 theorems (the registered check lists are concrete there); this entry carries the invariant "
         "of the node loop: every node seen so far passed the current check")
    loop(1, over="fcp.get(category).attempt()",
         invariant=lambda it: forall(0, it, lambda i: not check_rejects(fn_name(check), fcp, nodes(fcp, category)[i])))
