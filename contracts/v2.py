"""Contracts for fcp/specs/v2.py (schema container)."""


@contract("fcp.specs.v2:FcpV2.merge")
def merge(self: "FcpV2M", fcp: "ref:FcpV2"):
    modifies(self.structs, self.enums, self.impls, self.services, self.devices)
    ensures(self.structs == old(self.structs) + fcp.structs)
    ensures(self.enums == old(self.enums) + fcp.enums)
    ensures(self.impls == old(self.impls) + fcp.impls)
    ensures(self.services == old(self.services) + fcp.services)
    ensures(self.devices == old(self.devices) + fcp.devices)
