"""Contracts for the reflection() methods (C12): the record carries exactly the declared values."""


@contract("fcp.specs.type:NumericType.reflection")
def numeric_reflection(self: "ref:NumericType") -> "seq[dyn]":
    ensures(result == type_chain(self))


@contract("fcp.specs.type:StringType.reflection")
def string_reflection(self: "ref:StringType") -> "seq[dyn]":
    ensures(result == type_chain(self))


@contract("fcp.specs.type:EnumType.reflection")
def enumtype_reflection(self: "ref:EnumType") -> "seq[dyn]":
    ensures(result == type_chain(self))


@contract("fcp.specs.type:StructType.reflection")
def structtype_reflection(self: "ref:StructType") -> "seq[dyn]":
    ensures(result == type_chain(self))


@contract("fcp.specs.type:ArrayType.reflection")
def array_reflection(self: "ref:ArrayType") -> "seq[dyn]":
    ensures(result == type_chain(self))


@contract("fcp.specs.type:DynamicArrayType.reflection")
def dynarray_reflection(self: "ref:DynamicArrayType") -> "seq[dyn]":
    ensures(result == type_chain(self))


@contract("fcp.specs.type:OptionalType.reflection")
def optional_reflection(self: "ref:OptionalType") -> "seq[dyn]":
    ensures(result == type_chain(self))


@contract("fcp.specs.metadata:MetaData.reflection")
def metadata_reflection(self: "ref:MetaData") -> "dyn":
    ensures(dyn_get(result, "line") == d_mk_int(self.line) and dyn_get(result, "end_line") == d_mk_int(self.end_line)
            and dyn_get(result, "column") == d_mk_int(self.column) and dyn_get(result, "end_column") == d_mk_int(self.end_column)
            and dyn_get(result, "start_pos") == d_mk_int(self.start_pos) and dyn_get(result, "end_pos") == d_mk_int(self.end_pos)
            and dyn_get(result, "filename") == to_dyn(self.filename))


@contract("fcp.specs.struct_field:StructField.reflection")
def field_reflection(self: "ref:StructField") -> "dyn":
    ensures(dyn_get(result, "name") == to_dyn(self.name) and dyn_get(result, "field_id") == d_mk_int(self.field_id))
    ensures(dyn_get(result, "type") == d_mk_list(type_chain(self.type)))
    ensures(dyn_get(result, "unit") == to_dyn(self.unit))
    ensures(dyn_get(result, "min_value") == to_dyn(self.min_value) and dyn_get(result, "max_value") == to_dyn(self.max_value))


@contract("fcp.specs.enum:Enumeration.reflection")
def enumeration_reflection(self: "ref:Enumeration") -> "dyn":
    ensures(dyn_get(result, "name") == to_dyn(self.name) and dyn_get(result, "value") == d_mk_int(self.value))


@contract("fcp.specs.signal_block:SignalBlock.reflection")
def signal_block_reflection(self: "ref:SignalBlock") -> "dyn":
    note("the fields of a signal block are an open dict: listed as {name, value} pairs in declaration order (not modelled further)")
    ensures(dyn_get(result, "name") == to_dyn(self.name))


@contract("fcp.specs.impl:Impl.reflection")
def impl_reflection(self: "ref:Impl") -> "dyn":
    note("call-resolves obligation: every method called on a signal block must exist (an AttributeError path is an obligation failure)")
    may_raise(ValueError)
    ensures(dyn_get(result, "name") == to_dyn(self.name) and dyn_get(result, "protocol") == to_dyn(self.protocol)
            and dyn_get(result, "type") == to_dyn(self.type))
