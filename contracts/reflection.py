"""Contracts for the reflection() methods (C12): the record carries exactly the declared values."""


@contract("fcp.specs.type:NumericType.reflection")
def numeric_reflection(self: "ref:NumericType") -> "seq[dyn]":
    ensures(result == type_chain(self))


@contract("fcp.specs.type:StringType.reflection")
def string_reflection(self: "ref:StringType") -> "seq[dyn]":
    ensures(result == type_chain(self))


@contract("fcp.specs.type:EnumType.reflection")
def enumtype_reflection(self: "ref:EnumType") -> "seq[dyn]":
    ensures(result == type_chain(self))


@contract("fcp.specs.type:StructType.reflection")
def structtype_reflection(self: "ref:StructType") -> "seq[dyn]":
    ensures(result == type_chain(self))


@contract("fcp.specs.type:ArrayType.reflection")
def array_reflection(self: "ref:ArrayType") -> "seq[dyn]":
    ensures(result == type_chain(self))


@contract("fcp.specs.type:DynamicArrayType.reflection")
def dynarray_reflection(self: "ref:DynamicArrayType") -> "seq[dyn]":
    ensures(result == type_chain(self))


@contract("fcp.specs.type:OptionalType.reflection")
def optional_reflection(self: "ref:OptionalType") -> "seq[dyn]":
    ensures(result == type_chain(self))


@contract("fcp.specs.metadata:MetaData.reflection")
def metadata_reflection(self: "ref:MetaData") -> "dyn":
    ensures(is_meta(result, self))


@contract("fcp.specs.struct_field:StructField.reflection")
def field_reflection(self: "ref:StructField") -> "dyn":
    ensures(is_field_rec(result, self))


@contract("fcp.specs.struct:Struct.reflection")
def struct_reflection(self: "ref:Struct") -> "dyn":
    ensures(is_struct_rec(result, self))


@contract("fcp.specs.enum:Enumeration.reflection")
def enumeration_reflection(self: "ref:Enumeration") -> "dyn":
    ensures(is_enumeration_rec(result, self))


@contract("fcp.specs.enum:Enum.reflection")
def enum_reflection(self: "ref:Enum") -> "dyn":
    ensures(is_enum_rec(result, self))


@contract("fcp.specs.signal_block:SignalBlock.reflection")
def signal_block_reflection(self: "ref:SignalBlock") -> "dyn":
    note("the fields of a signal block are an open dict: listed as {name, value} pairs in declaration order, values as str()")
    ensures(is_signal_block_rec(result, self))


@contract("fcp.specs.impl:Impl.reflection")
def impl_reflection(self: "ref:Impl") -> "dyn":
    note("call-resolves obligation: every method called on a signal block must exist (an AttributeError path is an obligation failure)")
    ensures(is_impl_rec(result, self))


@contract("fcp.specs.method:Method.reflection")
def method_reflection(self: "ref:Method") -> "dyn":
    ensures(is_method_rec(result, self))


@contract("fcp.specs.service:Service.reflection")
def service_reflection(self: "ref:Service") -> "dyn":
    ensures(is_service_rec(result, self))


@contract("fcp.specs.v2:encode_version")
def encode_version(version: "str") -> "int":
    note("'major.minor' -> major*1000+minor; anything else raises ValueError (the parser never sets the version: it is the "
         "class default '3.0')")
    raises(ValueError, iff=not version_ok(version))
    ensures(result == version_code(version))


@contract("fcp.specs.v2:FcpV2.reflection")
def fcp_reflection(self: "ref:FcpV2") -> "dyn":
    note("the parser never sets the version (class default '3.0', for which version_ok holds: checked natively)")
    raises(ValueError, iff=not version_ok(self.version))
    ensures(is_fcp_rec(result, self))
