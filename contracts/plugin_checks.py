"""Contracts for the verifier rules the generator plug-ins register (C09)."""


@contract("fcp_dbc.generator:Generator.register_checks.check_impl_valid_type")
def dbc_check_impl_valid_type(self: "any", fcp: "ref:FcpV2", impl: "ref:Impl") -> "result[none,any]":
    ensures(result.is_err() == unknown_struct(fcp, impl))
    ensures(result.is_ok() == (not unknown_struct(fcp, impl)))


@contract("fcp_dbc.generator:Generator.register_checks.check_duplicate_can_ids")
def dbc_check_duplicate_can_ids(self: "any", fcp: "ref:FcpV2", impl: "ref:Impl") -> "result[none,any]":
    ensures(result.is_err() == dup_can_id(fcp, impl))
    ensures(result.is_ok() == (not dup_can_id(fcp, impl)))


@contract("fcp_can_c.generator:Generator.register_checks.check_impl_valid_type")
def c_check_impl_valid_type(self: "any", fcp: "ref:FcpV2", extension: "ref:Impl") -> "result[none,any]":
    ensures(result.is_err() == unknown_struct(fcp, extension))
    ensures(result.is_ok() == (not unknown_struct(fcp, extension)))


# ---------------------------------------------------------------- C14: the C plug-in's size rule
@contract("fcp.specs.type:Type.get_length")
def type_get_length(self: "ref:Type") -> "int":
    note("the base class (inherited by enum, string and struct types) has no length")
    raises(ValueError, iff=True)


@contract("fcp.specs.type:DynamicArrayType.get_length")
def dynarray_get_length(self: "ref:DynamicArrayType") -> "int":
    raises(ValueError, iff=True)


@contract("fcp.specs.type:OptionalType.get_length")
def optional_get_length(self: "ref:OptionalType") -> "int":
    raises(ValueError, iff=True)


@contract("fcp.specs.type:ArrayType.get_length")
def array_get_length(self: "ref:ArrayType") -> "int":
    requires(unfold(has_decl_bits(self)))
    ensures(result == unfold(decl_bits(self)))


@contract("fcp_can_c.generator:Generator.register_checks.check_impl_size")
def c_check_impl_size(self: "any", fcp: "ref:FcpV2", extension: "ref:Impl") -> "result[none,any]":
    note("C14: for structs made of numeric fields and arrays of them, the rule rejects exactly the bindings whose declared size "
         "exceeds 64 bits; for any other field kind get_length() raises (known finding KF-F16), which the precondition excludes")
    requires(has_struct(fcp, extension.type))
    requires(forall(0, len(struct_of(fcp, extension.type).fields), lambda k: has_decl_bits(struct_of(fcp, extension.type).fields[k].type)))
    ensures(result.is_err() == (decl_sum(struct_of(fcp, extension.type).fields, len(struct_of(fcp, extension.type).fields)) > 64))
    ensures(result.is_ok() == (decl_sum(struct_of(fcp, extension.type).fields, len(struct_of(fcp, extension.type).fields)) <= 64))
    lemma_before("sum", sum_pointwise(ARG0, struct_of(fcp, extension.type).fields, len(struct_of(fcp, extension.type).fields)))
