"""Contracts for the verifier rules the generator plug-ins register (C09)."""


@contract("fcp_dbc.generator:Generator.register_checks.check_impl_valid_type")
def dbc_check_impl_valid_type(self: "any", fcp: "ref:FcpV2", impl: "ref:Impl") -> "result[none,any]":
    ensures(result.is_err() == unknown_struct(fcp, impl))
    ensures(result.is_ok() == (not unknown_struct(fcp, impl)))


@contract("fcp_dbc.generator:Generator.register_checks.check_duplicate_can_ids")
def dbc_check_duplicate_can_ids(self: "any", fcp: "ref:FcpV2", impl: "ref:Impl") -> "result[none,any]":
    ensures(result.is_err() == dup_can_id(fcp, impl))
    ensures(result.is_ok() == (not dup_can_id(fcp, impl)))


@contract("fcp_can_c.generator:Generator.register_checks.check_impl_valid_type")
def c_check_impl_valid_type(self: "any", fcp: "ref:FcpV2", extension: "ref:Impl") -> "result[none,any]":
    ensures(result.is_err() == unknown_struct(fcp, extension))
    ensures(result.is_ok() == (not unknown_struct(fcp, extension)))
