"""Contracts for the decoder half of fcp.serde.  Ghost parameter `v`: "the input at the cursor is the image of v"."""


@contract("fcp.serde:_decode_builtin_unsigned")
def _decode_builtin_unsigned(buffer: "_Buffer", type: "ref:UnsignedType") -> "int":
    requires(Rep(buffer.buffer, buffer.gbits) and buffer.bitaddr >= 0 and num_width(type) >= 0)
    modifies(buffer.bitaddr)
    raises(ValueError, iff=num_width(type) > 0 and buffer.bitaddr + num_width(type) > 8 * arr_len(buffer.buffer))
    ensures(result == val_bits(buffer.gbits, old(buffer.bitaddr), num_width(type)))
    ensures(buffer.bitaddr == old(buffer.bitaddr) + num_width(type))
    ensures(0 <= result and result < pw2(num_width(type)))


@contract("fcp.serde:_decode_builtin_signed")
def _decode_builtin_signed(buffer: "_Buffer", type: "ref:SignedType") -> "int":
    requires(Rep(buffer.buffer, buffer.gbits) and buffer.bitaddr >= 0 and num_width(type) >= 1)
    modifies(buffer.bitaddr)
    raises(ValueError, iff=buffer.bitaddr + num_width(type) > 8 * arr_len(buffer.buffer))
    ensures(buffer.bitaddr == old(buffer.bitaddr) + num_width(type))
    # two's complement: the word is the unsigned image of the result
    ensures(uval(result, num_width(type)) == val_bits(buffer.gbits, old(buffer.bitaddr), num_width(type)))
    ensures(0 - pw2(num_width(type) - 1) <= result and result < pw2(num_width(type) - 1))


@contract("fcp.serde:_decode_builtin_float")
def _decode_builtin_float(buffer: "_Buffer", type: "ref:FloatType") -> "float":
    requires(Rep(buffer.buffer, buffer.gbits) and buffer.bitaddr >= 0)
    modifies(buffer.bitaddr)
    raises(ValueError, iff=buffer.bitaddr + 32 > 8 * arr_len(buffer.buffer))
    ensures(buffer.bitaddr == old(buffer.bitaddr) + 32)
    ensures(result == of_f32_bits(val_bits(buffer.gbits, old(buffer.bitaddr), 32)))


@contract("fcp.serde:_decode_builtin_double")
def _decode_builtin_double(buffer: "_Buffer", type: "ref:DoubleType") -> "float":
    requires(Rep(buffer.buffer, buffer.gbits) and buffer.bitaddr >= 0)
    modifies(buffer.bitaddr)
    raises(ValueError, iff=buffer.bitaddr + 64 > 8 * arr_len(buffer.buffer))
    ensures(buffer.bitaddr == old(buffer.bitaddr) + 64)
    ensures(result == of_f64_bits(val_bits(buffer.gbits, old(buffer.bitaddr), 64)))


@contract("fcp.serde:_decode_enum")
def _decode_enum(buffer: "_Buffer", fcp: "ref:FcpV2", type: "ref:EnumType") -> "int":
    requires(Rep(buffer.buffer, buffer.gbits) and buffer.bitaddr >= 0)
    requires(has_enum(fcp, type.name) and enum_values_ok(enum_of(fcp, type.name)))
    modifies(buffer.bitaddr)
    raises(ValueError, iff=buffer.bitaddr + enum_width(enum_of(fcp, type.name)) > 8 * arr_len(buffer.buffer))
    ensures(buffer.bitaddr == old(buffer.bitaddr) + enum_width(enum_of(fcp, type.name)))
    ensures(result == val_bits(buffer.gbits, old(buffer.bitaddr), enum_width(enum_of(fcp, type.name))))


@assumed("ext:bytearray.decode")
def bytearray_decode(self: "arr", encoding: "str") -> "seq[char]":
    note("bytearray(b).decode('ascii') is the string with code points b[i]; UnicodeDecodeError iff some b[i] >= 128")
    requires(encoding == "ascii")
    raises(UnicodeDecodeError, iff=exists(0, arr_len(self), lambda i: arr_get(self, i) >= 128))
    ensures(len(result) == arr_len(self))
    ensures(forall(0, arr_len(self), lambda i: result[i] == arr_get(self, i)))


@contract("fcp.serde:_decode_str")
def _decode_str(buffer: "_Buffer", type: "ref:StringType") -> "seq[char]":
    fresh("v", "dyn")
    fresh("fb", "seq[int]")
    # C16: a buffer that is a prefix of an input holding v here, and that ends before v's image does, makes the decoder raise
    must_raise_if(is_prefix(buffer.gbits, fb) and d_is_str(v) and buffer.bitaddr + 32 + 8 * size(d_chars(v)) <= size(fb)
                  and val_bits(fb, buffer.bitaddr, 32) == size(d_chars(v))
                  and size(buffer.gbits) < buffer.bitaddr + 32 + 8 * size(d_chars(v)))
    use_lemma(val_prefix_if(buffer.gbits, fb, old(buffer.bitaddr), 32))
    # C16: the count prefix and every announced character must be inside the input
    must_raise_if(buffer.bitaddr + 32 > 8 * arr_len(buffer.buffer))
    must_raise_if(buffer.bitaddr + 32 <= 8 * arr_len(buffer.buffer)
                  and buffer.bitaddr + 32 + 8 * val_bits(buffer.gbits, buffer.bitaddr, 32) > 8 * arr_len(buffer.buffer))
    requires(Rep(buffer.buffer, buffer.gbits) and buffer.bitaddr >= 0 and size(buffer.gbits) == 8 * arr_len(buffer.buffer))
    modifies(buffer.bitaddr)
    may_raise(ValueError)
    may_raise(UnicodeDecodeError)
    ensures(buffer.bitaddr >= old(buffer.bitaddr))
    no_raise_if(d_is_str(v) and size(d_chars(v)) < 4294967296
                and forall(0, size(d_chars(v)), lambda i: 0 <= d_chars(v)[i] and d_chars(v)[i] < 128)
                and buffer.bitaddr + 32 + 8 * size(d_chars(v)) <= size(buffer.gbits)
                and val_bits(buffer.gbits, buffer.bitaddr, 32) == size(d_chars(v))
                and forall(0, size(d_chars(v)), lambda i: val_bits(buffer.gbits, buffer.bitaddr + 32 + 8 * i, 8) == d_chars(v)[i]))
    ensures(implies(d_is_str(v) and size(d_chars(v)) < 4294967296
                    and forall(0, size(d_chars(v)), lambda i: 0 <= d_chars(v)[i] and d_chars(v)[i] < 128)
                    and old(buffer.bitaddr) + 32 + 8 * size(d_chars(v)) <= size(buffer.gbits)
                    and val_bits(buffer.gbits, old(buffer.bitaddr), 32) == size(d_chars(v))
                    and forall(0, size(d_chars(v)),
                               lambda i: val_bits(buffer.gbits, old(buffer.bitaddr) + 32 + 8 * i, 8) == d_chars(v)[i]),
                    result == d_chars(v) and buffer.bitaddr == old(buffer.bitaddr) + 32 + 8 * size(d_chars(v))))
    ensures(buffer.bitaddr <= 8 * arr_len(buffer.buffer) or buffer.bitaddr == old(buffer.bitaddr) + 32)
    ensures(buffer.bitaddr >= old(buffer.bitaddr) + 32 and buffer.bitaddr <= 8 * arr_len(buffer.buffer))     # C16: progress, in bounds
    option("loop0_locals", {"chars": "seq[int]"})
    loop(0, over="range(len)",
         invariant=lambda it: buffer.bitaddr == old(buffer.bitaddr) + 32 + 8 * it and size(chars) == it
         and (it == 0 or buffer.bitaddr <= 8 * arr_len(buffer.buffer))
         and forall(0, it, lambda i: chars[i] == val_bits(buffer.gbits, old(buffer.bitaddr) + 32 + 8 * i, 8)))


@contract("fcp.serde:_decode_array")
def _decode_array(buffer: "_Buffer", fcp: "ref:FcpV2", type: "ref:ArrayType") -> "seq[dyn]":
    fresh("v", "dyn")
    requires(DecPre(buffer.buffer, buffer.gbits, buffer.bitaddr))
    requires(wf_type(fcp, type))
    modifies(buffer.bitaddr)
    may_raise(Exception)
    ensures(buffer.bitaddr >= old(buffer.bitaddr))
    no_raise_if(conforms(fcp, type, v) and starts(fcp, type, buffer.gbits, buffer.bitaddr, v))
    ensures(implies(conforms(fcp, type, v) and starts(fcp, type, buffer.gbits, old(buffer.bitaddr), v),
                    result == d_list(v) and buffer.bitaddr == old(buffer.bitaddr) + len(wire(fcp, type, v))))
    # C16: a normal return consumed at least the minimal image and nothing outside the input
    ensures(buffer.bitaddr >= old(buffer.bitaddr) + type.size * min_wire(fcp, type.underlying_type))
    ensures(buffer.bitaddr <= 8 * arr_len(buffer.buffer) or buffer.bitaddr == old(buffer.bitaddr))
    # C16: truncated input (ghost fb: the full input the buffer is a prefix of)
    fresh("fb", "seq[int]")
    must_raise_if(short_in(fcp, type, buffer.gbits, fb, buffer.bitaddr, v))
    ghost_arg("_decode", v=d_list(v)[it], fb=fb)
    lemma_after("_decode", loc_if(fcp, type.underlying_type, buffer.gbits, fb, old(buffer.bitaddr), d_list(v)[it]))
    option("loop0_locals", {"data": "seq[dyn]"})
    loop(0, over="range(type.size)",
         invariant=lambda it: buffer.bitaddr >= old(buffer.bitaddr)
         and buffer.bitaddr >= old(buffer.bitaddr) + it * min_wire(fcp, type.underlying_type)
         and (buffer.bitaddr <= 8 * arr_len(buffer.buffer) or buffer.bitaddr == old(buffer.bitaddr))
         and implies(trunc_pre(fcp, type, buffer.gbits, fb, old(buffer.bitaddr), v),
                     buffer.bitaddr == old(buffer.bitaddr) + len(wire_elems(fcp, type.underlying_type, d_list(v), it)))
         and implies(
             conforms(fcp, type, v) and starts(fcp, type, buffer.gbits, old(buffer.bitaddr), v),
             buffer.bitaddr == old(buffer.bitaddr) + len(wire_elems(fcp, type.underlying_type, d_list(v), it))
             and len(data) == it and forall(0, it, lambda i: data[i] == d_list(v)[i])))


@contract("fcp.serde:_decode_dynamic_array")
def _decode_dynamic_array(buffer: "_Buffer", fcp: "ref:FcpV2", type: "ref:DynamicArrayType") -> "seq[dyn]":
    fresh("v", "dyn")
    must_raise_if(buffer.bitaddr + 32 > 8 * arr_len(buffer.buffer))    # C16: a count prefix that is not there
    requires(DecPre(buffer.buffer, buffer.gbits, buffer.bitaddr))
    requires(wf_type(fcp, type))
    modifies(buffer.bitaddr)
    may_raise(Exception)
    ensures(buffer.bitaddr >= old(buffer.bitaddr))
    no_raise_if(conforms(fcp, type, v) and starts(fcp, type, buffer.gbits, buffer.bitaddr, v))
    ensures(implies(conforms(fcp, type, v) and starts(fcp, type, buffer.gbits, old(buffer.bitaddr), v),
                    result == d_list(v) and buffer.bitaddr == old(buffer.bitaddr) + size(wire(fcp, type, v))))
    # C16: a normal return consumed the count and at least the minimal image of every element, all inside the input: the number
    # of elements (= the work done) is bounded by the input length whenever the element type occupies at least one bit
    ensures(buffer.bitaddr >= old(buffer.bitaddr) + 32 + size(result) * min_wire(fcp, type.underlying_type))
    ensures(buffer.bitaddr >= old(buffer.bitaddr) + 32 and buffer.bitaddr <= 8 * arr_len(buffer.buffer))
    # C16 "work bounded by the input length": no more elements than input bits (fails for zero-width element types: KF-F23)
    ensures(size(result) <= 8 * arr_len(buffer.buffer))
    # C16: truncated input (ghost fb: the full input the buffer is a prefix of)
    fresh("fb", "seq[int]")
    must_raise_if(short_in(fcp, type, buffer.gbits, fb, buffer.bitaddr, v))
    use_lemma(val_prefix_if(buffer.gbits, fb, old(buffer.bitaddr), 32))
    ghost_arg("_decode", v=d_list(v)[it], fb=fb)
    lemma_after("_decode", loc_if(fcp, type.underlying_type, buffer.gbits, fb, old(buffer.bitaddr), d_list(v)[it]))
    lemma_after("_decode_builtin_unsigned", val_prefix_if(buffer.gbits, fb, old(buffer.bitaddr), 32))
    option("loop0_locals", {"data": "seq[dyn]"})
    loop(0, over="range(len)",
         invariant=lambda it: buffer.bitaddr >= old(buffer.bitaddr) + 32
         and implies(trunc_pre(fcp, type, buffer.gbits, fb, old(buffer.bitaddr), v),
                     len == size(d_list(v))
                     and buffer.bitaddr == old(buffer.bitaddr) + 32 + size(wire_elems(fcp, type.underlying_type, d_list(v), it)))
         and buffer.bitaddr >= old(buffer.bitaddr) + 32 + it * min_wire(fcp, type.underlying_type)
         and (min_wire(fcp, type.underlying_type) <= 0 or buffer.bitaddr >= old(buffer.bitaddr) + 32 + it)
         and buffer.bitaddr <= 8 * arr_len(buffer.buffer) and size(data) == it
         and implies(
             conforms(fcp, type, v) and starts(fcp, type, buffer.gbits, old(buffer.bitaddr), v),
             buffer.bitaddr == old(buffer.bitaddr) + 32 + size(wire_elems(fcp, type.underlying_type, d_list(v), it))
             and size(data) == it and forall(0, it, lambda i: data[i] == d_list(v)[i])))


@contract("fcp.serde:_decode_optional")
def _decode_optional(buffer: "_Buffer", fcp: "ref:FcpV2", type: "ref:OptionalType") -> "dyn":
    fresh("v", "dyn")
    fresh("fb", "seq[int]")
    must_raise_if(short_in(fcp, type, buffer.gbits, fb, buffer.bitaddr, v))      # C16
    use_lemma(val_prefix_if(buffer.gbits, fb, old(buffer.bitaddr), 8))
    must_raise_if(buffer.bitaddr + 8 > 8 * arr_len(buffer.buffer))     # C16: a presence flag that is not there
    requires(DecPre(buffer.buffer, buffer.gbits, buffer.bitaddr))
    requires(wf_type(fcp, type))
    modifies(buffer.bitaddr)
    may_raise(Exception)
    ensures(buffer.bitaddr >= old(buffer.bitaddr))
    no_raise_if(conforms(fcp, type, v) and starts(fcp, type, buffer.gbits, buffer.bitaddr, v))
    ensures(implies(conforms(fcp, type, v) and starts(fcp, type, buffer.gbits, old(buffer.bitaddr), v),
                    result == v and buffer.bitaddr == old(buffer.bitaddr) + len(wire(fcp, type, v))))
    ensures(buffer.bitaddr >= old(buffer.bitaddr) + 8 and buffer.bitaddr <= 8 * arr_len(buffer.buffer))     # C16
    ghost_arg("_decode", v=v, fb=fb)


@contract("fcp.serde:_decode_struct")
def _decode_struct(buffer: "_Buffer", fcp: "ref:FcpV2", name: "str") -> "dyn":
    fresh("v", "dyn")
    requires(DecPre(buffer.buffer, buffer.gbits, buffer.bitaddr))
    requires(wf_struct(fcp, name))
    modifies(buffer.bitaddr)
    may_raise(Exception)
    ensures(buffer.bitaddr >= old(buffer.bitaddr))
    no_raise_if(rt_hyp(fcp, name, buffer.gbits, buffer.bitaddr, v))
    ensures(implies(rt_hyp(fcp, name, buffer.gbits, old(buffer.bitaddr), v),
                    result == v and buffer.bitaddr == old(buffer.bitaddr) + len(wire_struct(fcp, name, v))))
    ensures(buffer.bitaddr >= old(buffer.bitaddr) + min_fields(fcp, sorted_fields(struct_of(fcp, name)), len(sorted_fields(struct_of(fcp, name)))))
    ensures(buffer.bitaddr <= 8 * arr_len(buffer.buffer) or buffer.bitaddr == old(buffer.bitaddr))     # C16
    # C16: truncated input (ghost fb: the full input the buffer is a prefix of)
    fresh("fb", "seq[int]")
    must_raise_if(is_prefix(buffer.gbits, fb) and conforms_struct(fcp, name, v) and starts_struct(fcp, name, fb, buffer.bitaddr, v)
                  and size(buffer.gbits) < buffer.bitaddr + size(wire_struct(fcp, name, v)))
    ghost_arg("_decode", v=dyn_get(v, field.name), fb=fb)
    lemma_after("_decode", loc_if(fcp, field.type, buffer.gbits, fb, old(buffer.bitaddr), dyn_get(v, field.name)))
    option("no_unfold", ["conforms", "starts", "wire", "wf_type", "min_wire"])
    option("loop0_locals", {"data": "dyn"})
    loop(0, over="sorted(struct.fields, key=lambda field: field.field_id)",
         invariant=lambda it: buffer.bitaddr >= old(buffer.bitaddr)
         and implies(trunc_hyp(fcp, name, buffer.gbits, fb, old(buffer.bitaddr), v),
                     buffer.bitaddr == old(buffer.bitaddr) + len(wire_fields(fcp, sorted_fields(struct_of(fcp, name)), v, it)))
         and buffer.bitaddr >= old(buffer.bitaddr) + min_fields(fcp, sorted_fields(struct_of(fcp, name)), it)
         and (buffer.bitaddr <= 8 * arr_len(buffer.buffer) or buffer.bitaddr == old(buffer.bitaddr))
         and d_is_dict(data) and implies(
             rt_hyp(fcp, name, buffer.gbits, old(buffer.bitaddr), v),
             buffer.bitaddr == old(buffer.bitaddr) + len(wire_fields(fcp, sorted_fields(struct_of(fcp, name)), v, it))
             and forall("str", lambda key: dyn_get(data, key) == ite(
                 name_among(sorted_fields(struct_of(fcp, name)), key, it), dyn_get(v, key), d_absent()))))


@contract("fcp.serde:_decode")
def _decode(buffer: "_Buffer", fcp: "ref:FcpV2", type: "ref:Type") -> "dyn":
    fresh("v", "dyn")
    fresh("fb", "seq[int]")
    # C16: reading a buffer that is a prefix of an input holding a conforming v at the cursor, and that ends before v's image
    # does, raises (for every type, by recursion over the type)
    must_raise_if(short_in(fcp, type, buffer.gbits, fb, buffer.bitaddr, v))
    requires(DecPre(buffer.buffer, buffer.gbits, buffer.bitaddr))
    requires(wf_type(fcp, type))
    modifies(buffer.bitaddr)
    may_raise(Exception)
    ensures(buffer.bitaddr >= old(buffer.bitaddr))
    no_raise_if(conforms(fcp, type, v) and starts(fcp, type, buffer.gbits, buffer.bitaddr, v))
    ensures(implies(conforms(fcp, type, v) and starts(fcp, type, buffer.gbits, old(buffer.bitaddr), v),
                    result == v and buffer.bitaddr == old(buffer.bitaddr) + len(wire(fcp, type, v))))
    option("opaque", ["wire_struct", "conforms_struct", "starts_struct", "wf_struct"])
    ensures(buffer.bitaddr >= old(buffer.bitaddr) + min_wire(fcp, type))                                # C16: progress
    ensures(buffer.bitaddr <= 8 * arr_len(buffer.buffer) or buffer.bitaddr == old(buffer.bitaddr))      # C16: in bounds
    ghost_arg("_decode_struct", v=v, fb=fb)
    ghost_arg("_decode_array", v=v, fb=fb)
    ghost_arg("_decode_dynamic_array", v=v, fb=fb)
    ghost_arg("_decode_optional", v=v, fb=fb)
    ghost_arg("_decode_str", v=v, fb=fb)


@contract("fcp.serde:_Buffer.push_bytes")
def push_bytes(self: "_Buffer", bytes: "arr"):
    note("only used by decode() to load the input into an empty buffer")
    requires(arr_len(self.buffer) == 0 and len(self.gbits) == 0 and bytes_ok(bytes))
    modifies(self.buffer, self.gbits)
    ghost_set(self.gbits, bits_of_bytes(bytes))
    ensures(self.buffer == bytes and self.gbits == bits_of_bytes(bytes))


@contract("fcp.serde:decode")
def decode(fcp: "ref:FcpV2", name: "str", data: "arr") -> "dyn":
    fresh("v", "dyn")
    requires(wf_struct(fcp, name) and bytes_ok(data))
    may_raise(Exception)
    no_raise_if(conforms_struct(fcp, name, v) and starts_struct(fcp, name, bits_of_bytes(data), 0, v))
    ensures(implies(conforms_struct(fcp, name, v) and starts_struct(fcp, name, bits_of_bytes(data), 0, v), result == v))
    # C16: decode returns only if the input holds at least the minimal image of the struct (for EVERY input, no ghost value)
    ensures(min_fields(fcp, sorted_fields(struct_of(fcp, name)), len(sorted_fields(struct_of(fcp, name)))) <= 8 * arr_len(data))
    # C16: an input that is a prefix of a longer input holding the image of a conforming v, and that ends before that image
    # does, makes decode() raise (ghost fb: the bits of the longer input)
    fresh("fb", "seq[int]")
    must_raise_if(is_prefix(bits_of_bytes(data), fb) and conforms_struct(fcp, name, v) and starts_struct(fcp, name, fb, 0, v)
                  and 8 * arr_len(data) < size(wire_struct(fcp, name, v)))
    option("opaque", ["wire_struct", "conforms_struct", "starts_struct", "wf_struct"])
    ghost_arg("_decode_struct", v=v, fb=fb)
    lemma_before("_decode_struct", unpack_rep(data))
