"""Contracts for fcp/codegen.py (C10): generation is gated by verification; exactly the returned files are written."""

OPAQUE = ["ext:pathlib.Path", "ext:logging.info", "ext:logging.error"]
EFFECTS = ["mkdir", "write_text", "remove", "makedirs", "rmdir", "unlink", "write", "Generator", "register_checks", "gen"]


@assumed("fcp.verifier:Verifier.verify")
def verify(self: "Verifier", fcp: "any") -> "result[none,any]":
    note("used modularly by C10 only: verify returns a Result and touches nothing outside the verifier (C09 proves what the verdict is)")
    ensures(result.is_ok() or result.is_err())


@contract("fcp.codegen:_handle_file")
def _handle_file(result: "ref:GenResult"):
    modifies(world().written)
    ghost_set(world().written, old(world().written) + [result])
    ensures_effects(effect_count("mkdir") == 1 and effect_count("write_text") == 1 and effect_count("remove") == 0)
    ensures_effects(effect_index("mkdir", 0) < effect_index("write_text", 0))
    ensures_effects(effect_recv("write_text", 0) == "pathlib.Path().write_text"
                    and effect_recv("mkdir", 0) == "pathlib.Path().parent.mkdir")
    ensures_effects(effect_arg("write_text", 0, 0) == str(result.get("contents")))
    ensures(world().written == old(world().written) + [result])


@contract("fcp.codegen:_handle_print")
def _handle_print(result: "ref:GenResult"):
    ensures_effects(effect_count("mkdir") == 0 and effect_count("write_text") == 0)


@contract("fcp.codegen:handle_result")
def handle_result(result: "ref:GenResult"):
    modifies(world().written)
    ensures(world().written == old(world().written) + ([result] if is_file(result) else []))
    ensures_effects(effect_count("mkdir") == 0 and effect_count("write_text") == 0
                    and effect_count("call:_handle_file") == (1 if is_file(result) else 0))


@assumed("fcp.codegen:CodeGenerator.generate")
def plugin_generate(self: "CodeGenerator", fcp: "ref", ctx: "any") -> "seq[ref:GenResult]":
    note("the plug-in's generate(): returns result records (or raises); what it returns is named plugin_results(fcp)")
    may_raise(Exception)
    ensures(result == plugin_results(fcp))


@contract("fcp.codegen:CodeGenerator.gen")
def gen(self: "CodeGenerator", fcp: "ref", templates: "any", skels: "any", output_path: "any"):
    modifies(world().written, self.output_path)
    may_raise(Exception)
    ensures(world().written == old(world().written) + files_of(plugin_results(fcp), len(plugin_results(fcp))))
    ensures_effects(effect_count("write_text") == 0 and effect_count("mkdir") == 0 and effect_count("remove") == 0)
    loop(0, over="self.generate(fcp, ctx)",
         invariant=lambda it: world().written == old(world().written) + files_of(plugin_results(fcp), it))


@assumed("fcp.codegen:GeneratorManager._get_generator")
def _get_generator(self: "GeneratorManager", generator_name: "any") -> "any":
    note("imports the plug-in module (or exits the process); touches nothing under the output directory")


@assumed("fcp.codegen:GeneratorManager._get_templates")
def _get_templates(self: "GeneratorManager", template_dir: "any") -> "any":
    note("reads the template directory; writes nothing")


@assumed("fcp.codegen:GeneratorManager._get_skels")
def _get_skels(self: "GeneratorManager", skel_dir: "any") -> "any":
    note("reads the skeleton directory; writes nothing")


@contract("fcp.codegen:GeneratorManager.generate")
def generate(self: "GeneratorManager", generator_name: "any", template_dir: "any", skel_dir: "any", fcp: "any",
             output_path: "any") -> "any":
    note("the only calls into the outside world are recorded in the effect log of the path: Generator(), register_checks, "
         "verify, _get_templates, _get_skels, gen")
    ensures_effects(effect_count("call:Verifier.verify") == 1)
    # the plug-in's own checks are registered before the verdict is computed
    ensures_effects(effect_count("register_checks") == 1
                    and effect_index("register_checks", 0) < effect_index("call:Verifier.verify", 0))
    # gated: gen runs exactly when the verdict is Ok, after the verdict, with the caller's schema and output path
    ensures_effects(effect_count("gen") == (1 if effect_result("call:Verifier.verify", 0).is_ok() else 0))
    ensures_effects(implies(effect_count("gen") == 1, effect_index("call:Verifier.verify", 0) < effect_index("gen", 0)))
    ensures_effects(implies(effect_result("call:Verifier.verify", 0).is_err(),
                            result is effect_result("call:Verifier.verify", 0)
                            and effect_count("call:GeneratorManager._get_templates") == 0
                            and effect_count("call:GeneratorManager._get_skels") == 0))
    ensures_effects(implies(effect_result("call:Verifier.verify", 0).is_ok(), result.is_ok()))
    ensures_effects(effect_count("write_text") == 0 and effect_count("mkdir") == 0 and effect_count("remove") == 0
                    and effect_count("makedirs") == 0)
