"""Contracts for plugins/fcp_dbc/fcp_dbc/dbc_writer.py (C05, C14)."""

INLINE = ["fcp.specs.impl:Impl.get_field", "fcp.encoding:make_encoder", "fcp.encoding:PackedEncoderContext.with_unroll_arrays",
          "fcp.specs.type:NumericType.is_signed", "fcp.specs.type:EnumType.is_signed", "fcp.specs.type:NumericType.is_float",
          "fcp.specs.type:NumericType.is_double"]


@assumed("ext:cantools.database.conversion.BaseConversion.factory")
def conversion_factory(is_float: "bool" = False) -> "bool":
    note("cantools: the conversion object carries the is_float flag (scale 1, offset 0); modelled as that flag")
    ensures(result == is_float)


@assumed("ext:cantools.database.can.signal.Signal")
def CanSignal(name: "str", start: "int", length: "int", byte_order: "str" = "little_endian", is_signed: "bool" = False,
              conversion: "bool" = False, minimum: "int" = 0, maximum: "int" = 0, unit: "any" = None, comment: "any" = None,
              is_multiplexer: "bool" = False, multiplexer_ids: "any" = None, multiplexer_signal: "any" = None) -> "ref:DbcSignal":
    note("cantools Signal: the object (and the DBC text printed from it) carries exactly the constructor arguments")
    ensures(result.name == name and result.start == start and result.length == length and result.byte_order == byte_order)
    ensures(result.is_signed == is_signed and result.is_float == conversion and result.is_multiplexer == is_multiplexer)
    ensures(to_dyn(result.unit) == to_dyn(unit) and to_dyn(result.multiplexer_signal) == to_dyn(multiplexer_signal))
    ensures(is_none(result.multiplexer_ids) == is_none(multiplexer_ids))


@contract("fcp_dbc.dbc_writer:_make_signals")
def _make_signals(encoding: "seq[ref:Value]", type: "str") -> "tuple[seq[ref:DbcSignal],int]":
    requires(len(encoding) >= 1)
    requires(forall(0, len(encoding), lambda k: leaf_type(encoding[k].type)))
    raises(ValueError, iff=piece_end(encoding[len(encoding) - 1]) > 64)
    ensures(len(result[0]) == len(encoding))
    ensures(forall(0, len(encoding), lambda i: sig_ok(result[0][i], encoding[i], encoding)))
    ensures(result[1] == (piece_end(encoding[len(encoding) - 1]) + 7) // 8)
    option("loop0_locals", {"signals": "seq[ref:DbcSignal]", "mux_ids": "opt[seq[int]]", "mux_count": "opt[int]"})
    loop(0, over="encoding",
         invariant=lambda it: len(signals) == it and forall(0, it, lambda i: sig_ok(signals[i], encoding[i], encoding))
         and dlc == (0 if it == 0 else (piece_end(encoding[it - 1]) + 7) // 8))


@assumed("ext:cantools.database.can.message.Message")
def CanMessage(frame_id: "int", name: "str", length: "int", signals: "seq[ref:DbcSignal]", senders: "any" = None) -> "ref:DbcMessage":
    note("cantools Message: the object (and the BO_ line printed from it) carries exactly the constructor arguments")
    ensures(result.frame_id == frame_id and result.name == name and result.length == length and result.signals == signals)


@assumed("ext:cantools.database.can.node.Node")
def CanNode(name: "dyn") -> "ref:DbcNode":
    ensures(result.name == name)


@assumed("ext:cantools.database.can.database.Database")
def CanDatabase(messages: "seq[dyn]", nodes: "seq[ref:DbcNode]") -> "ref:DbcDatabase":
    ensures(result.messages == messages and result.nodes == nodes)


@assumed("ext:DbcDatabase.as_dbc_string")
def as_dbc_string(self: "ref:DbcDatabase", sort_signals: "any" = None) -> "str":
    note("cantools prints the database; an independent reader recovers it from the text (db_of_text is that reader, abstractly)")
    ensures(db_of_text(result) == self)


@contract("fcp.specs.v2:FcpV2.get_matching_impls")
def get_matching_impls(self: "ref:FcpV2", protocol: "str") -> "seq[ref:Impl]":
    note("a generator: modelled as the list of the yielded values (no side effects between the yields)")
    ensures(result == matching(self.impls, protocol, len(self.impls)))
    option("loop0_locals", {"__yields__": "seq[ref:Impl]"})
    loop(0, over="self.impls", invariant=lambda it: __yields__ == matching(self.impls, protocol, it))


@contract("fcp_dbc.dbc_writer:write_dbc")
def write_dbc(fcp: "ref:FcpV2") -> "result[seq[tuple[str,str]],str]":
    note("C14: a binding whose struct has no static packed size, or that exceeds 64 bits, makes the call raise ValueError (nothing is "
         "returned, so nothing is emitted); a binding without id gives Err.  C05: one text per bus, in order of first use, whose "
         "database holds exactly the messages of the bindings on that bus, in order, with their frame ids and names")
    requires(forall(0, len(can_impls(fcp)), lambda k: wf_struct(fcp, can_impls(fcp)[k].type)))
    # the general verifier rejects structs without fields before any generator runs (C09/C10): every layout has a leaf
    requires(forall(0, len(can_impls(fcp)), lambda k: len(layout_names(fcp, can_impls(fcp)[k])) >= 1))
    may_raise(ValueError)
    ensures(result.is_ok() or result.is_err())
    ensures(implies(result.is_ok(), forall(0, len(can_impls(fcp)), lambda k: impl_fits(fcp, can_impls(fcp)[k]))))
    ensures(implies(result.is_ok(), len(result.unwrap()) == len(bus_keys(can_impls(fcp), len(can_impls(fcp))))))
    option("no_unfold", ["wf_type", "all_fixed", "struct_names", "field_names", "arr_names", "type_width", "fixed_size", "first_struct_from",
                         "first_signal_from", "sorted_fields", "enum_width"])
    fresh("b0", "str")
    note("b0 is an arbitrary bus name (a universally quantified constant of the proof): the clause below holds for every b0")
    ensures(implies(result.is_ok(), forall(0, len(result.unwrap()), lambda j:
            result.unwrap()[j][0] == bus_keys(can_impls(fcp), len(can_impls(fcp)))[j]
            and implies(result.unwrap()[j][0] == b0,
                        group_ok(db_of_text(result.unwrap()[j][1]).messages, fcp, can_impls(fcp), len(can_impls(fcp)), b0)))))
    loop(0, over="fcp.get_matching_impls('can')", modifies=[buses.keys, buses.messages, buses.nodes, encoder.encoding, encoder.bitstart, encoder.gnames],
         invariant=lambda it: buses.keys == bus_keys(can_impls(fcp), it)
         and forall(0, it, lambda k: impl_fits(fcp, can_impls(fcp)[k]))
         and group_ok(buses.messages[b0], fcp, can_impls(fcp), it, b0))


@contract("fcp_dbc.generator:Generator.generate")
def dbc_generate(self: "any", fcp: "ref:FcpV2", ctx: "any") -> "seq[dyn]":
    note("C05/C14 at the plug-in's entry point: one `file` record per bus text returned by write_dbc, in the same order, carrying "
         "that bus name and that text unchanged; an Err from write_dbc (binding without id) or its ValueError leaves as an exception, "
         "so no record is returned for a schema with a binding that does not fit")
    requires(forall(0, len(can_impls(fcp)), lambda k: wf_struct(fcp, can_impls(fcp)[k].type)))
    requires(forall(0, len(can_impls(fcp)), lambda k: len(layout_names(fcp, can_impls(fcp)[k])) >= 1))
    may_raise(ValueError)
    may_raise(Exception)
    fresh("b0", "str")
    ensures(forall(0, len(can_impls(fcp)), lambda k: impl_fits(fcp, can_impls(fcp)[k])))
    ensures(len(result) == len(bus_keys(can_impls(fcp), len(can_impls(fcp)))))
    ensures(forall(0, len(result), lambda j: d_is_dict(result[j])))
    ensures(forall(0, len(result), lambda j: dyn_get(result[j], "type") == to_dyn("file")))
    ensures(forall(0, len(result), lambda j: dyn_get(result[j], "bus") == to_dyn(bus_keys(can_impls(fcp), len(can_impls(fcp)))[j])))
    ensures(forall(0, len(result), lambda j:
            implies(bus_keys(can_impls(fcp), len(can_impls(fcp)))[j] == b0,
                    group_ok(db_of_text(d_name(dyn_get(result[j], "contents"))).messages, fcp, can_impls(fcp),
                             len(can_impls(fcp)), b0))))
    ghost_arg("write_dbc", b0=b0)
    option("opaque", ["group_ok", "bus_keys", "impl_fits", "wf_struct", "layout_names"])


@assumed("opaque:ctx.get")
def ctx_get(key: "str", default: "any" = None) -> "dyn":
    note("the generator context is a plain dict handed in by the caller: reading a key has no effect")
