"""Contracts for plugins/fcp_dbc/fcp_dbc/dbc_writer.py (C05, C14)."""

INLINE = ["fcp.specs.type:NumericType.is_signed", "fcp.specs.type:EnumType.is_signed", "fcp.specs.type:NumericType.is_float",
          "fcp.specs.type:NumericType.is_double"]


@assumed("ext:cantools.database.conversion.BaseConversion.factory")
def conversion_factory(is_float: "bool" = False) -> "bool":
    note("cantools: the conversion object carries the is_float flag (scale 1, offset 0); modelled as that flag")
    ensures(result == is_float)


@assumed("ext:cantools.database.can.signal.Signal")
def CanSignal(name: "str", start: "int", length: "int", byte_order: "str" = "little_endian", is_signed: "bool" = False,
              conversion: "bool" = False, minimum: "int" = 0, maximum: "int" = 0, unit: "any" = None, comment: "any" = None,
              is_multiplexer: "bool" = False, multiplexer_ids: "any" = None, multiplexer_signal: "any" = None) -> "ref:DbcSignal":
    note("cantools Signal: the object (and the DBC text printed from it) carries exactly the constructor arguments")
    ensures(result.name == name and result.start == start and result.length == length and result.byte_order == byte_order)
    ensures(result.is_signed == is_signed and result.is_float == conversion and result.is_multiplexer == is_multiplexer)
    ensures(to_dyn(result.unit) == to_dyn(unit) and to_dyn(result.multiplexer_signal) == to_dyn(multiplexer_signal))
    ensures(is_none(result.multiplexer_ids) == is_none(multiplexer_ids))


@contract("fcp_dbc.dbc_writer:_make_signals")
def _make_signals(encoding: "seq[ref:Value]", type: "str") -> "tuple[seq[ref:DbcSignal],int]":
    requires(len(encoding) >= 1)
    requires(forall(0, len(encoding), lambda k: leaf_type(encoding[k].type)))
    raises(ValueError, iff=piece_end(encoding[len(encoding) - 1]) > 64)
    ensures(len(result[0]) == len(encoding))
    ensures(forall(0, len(encoding), lambda i: sig_ok(result[0][i], encoding[i], encoding)))
    ensures(result[1] == (piece_end(encoding[len(encoding) - 1]) + 7) // 8)
    option("loop0_locals", {"signals": "seq[ref:DbcSignal]", "mux_ids": "opt[seq[int]]", "mux_count": "opt[int]"})
    loop(0, over="encoding",
         invariant=lambda it: len(signals) == it and forall(0, it, lambda i: sig_ok(signals[i], encoding[i], encoding))
         and dlc == (0 if it == 0 else (piece_end(encoding[it - 1]) + 7) // 8))
