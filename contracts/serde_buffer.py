"""Contracts for fcp.serde:_Buffer (byte layer and word layer)."""


@contract("fcp.serde:_Buffer.set_bit")
def set_bit(self: "_Buffer", bit: "int", bitaddr: "int"):
    requires(Rep(self.buffer, self.gbits))
    requires(bitaddr == len(self.gbits))
    requires(bit == 0 or bit == 1)
    modifies(self.buffer, self.gbits)
    ghost_set(self.gbits, old(self.gbits) + [bit])
    ensures(Rep(self.buffer, self.gbits))
    ensures(self.gbits == old(self.gbits) + [bit])
    split(bitaddr % 8, 8)


@contract("fcp.serde:_Buffer.get_bit")
def get_bit(self: "_Buffer", bitaddr: "int") -> "int":
    requires(Rep(self.buffer, self.gbits))
    requires(bitaddr >= 0)
    raises(ValueError, iff=bitaddr >= 8 * arr_len(self.buffer))
    ensures(result == padbit(self.gbits, bitaddr))
    split(bitaddr % 8, 8)


@contract("fcp.serde:_Buffer.push_word")
def push_word(self: "_Buffer", word: "int", bits: "int"):
    requires(Rep(self.buffer, self.gbits))
    requires(self.bitaddr == len(self.gbits))
    requires(bits >= 0)
    modifies(self.buffer, self.gbits, self.bitaddr)
    ensures(Rep(self.buffer, self.gbits))
    ensures(self.gbits == old(self.gbits) + word_bits(word, bits))
    ensures(self.bitaddr == len(self.gbits))
    ensures(self.bitaddr == old(self.bitaddr) + bits)
    loop(0, over="range(bits)",
         invariant=lambda it: Rep(self.buffer, self.gbits) and self.bitaddr == old(self.bitaddr)
         and self.gbits == old(self.gbits) + word_bits(word, it) and len(self.gbits) == self.bitaddr + it)


@contract("fcp.serde:_Buffer.read_word")
def read_word(self: "_Buffer", bits: "int") -> "int":
    requires(Rep(self.buffer, self.gbits))
    requires(self.bitaddr >= 0)
    requires(bits >= 0)
    modifies(self.bitaddr)
    raises(ValueError, iff=bits > 0 and self.bitaddr + bits > 8 * arr_len(self.buffer))
    ensures(result == val_bits(self.gbits, old(self.bitaddr), bits))
    ensures(self.bitaddr == old(self.bitaddr) + bits)
    ensures(0 <= result and result < pw2(bits))
    loop(0, over="range(bits)",
         invariant=lambda it: self.bitaddr == old(self.bitaddr) and word == val_bits(self.gbits, self.bitaddr, it)
         and 0 <= word and word < pw2(it) and (it == 0 or self.bitaddr + it <= 8 * arr_len(self.buffer)))
