"""Contracts for the encoder half of fcp.serde, and for the schema look-ups it uses."""


# ---------------------------------------------------------------- schema look-ups (fcp/specs/v2.py, type.py, enum.py)
@contract("fcp.specs.v2:FcpV2.get_struct")
def get_struct(self: "ref:FcpV2", name: "str") -> "maybe[ref:Struct]":
    ensures(result.is_some() == has_struct(self, name))
    ensures(implies(has_struct(self, name), result.unwrap() == struct_of(self, name)))
    loop(0, over="self.structs",
         invariant=lambda it: first_struct_from(self.structs, name, 0) == first_struct_from(self.structs, name, it))


@contract("fcp.specs.v2:FcpV2.get_enum")
def get_enum(self: "ref:FcpV2", name: "str") -> "maybe[ref:Enum]":
    ensures(result.is_some() == has_enum(self, name))
    ensures(implies(has_enum(self, name), result.unwrap() == enum_of(self, name)))
    loop(0, over="self.enums",
         invariant=lambda it: first_enum_from(self.enums, name, 0) == first_enum_from(self.enums, name, it))


@contract("fcp.specs.type:NumericType.get_length")
def get_length(self: "ref:NumericType") -> "int":
    requires(num_width(self) >= 0)
    ensures(result == num_width(self))


# ---------------------------------------------------------------- scalars
@contract("fcp.serde:_encode_builtin_unsigned")
def _encode_builtin_unsigned(buffer: "_Buffer", type: "ref:UnsignedType", data: "dyn"):
    requires(Rep(buffer.buffer, buffer.gbits) and buffer.bitaddr == len(buffer.gbits))
    requires(d_is_int(data) and num_width(type) >= 0)
    modifies(buffer.buffer, buffer.gbits, buffer.bitaddr)
    ensures(Rep(buffer.buffer, buffer.gbits) and buffer.bitaddr == len(buffer.gbits))
    ensures(buffer.gbits == old(buffer.gbits) + word_bits(d_int(data), num_width(type)))


@contract("fcp.serde:_encode_builtin_signed")
def _encode_builtin_signed(buffer: "_Buffer", type: "ref:SignedType", data: "dyn"):
    requires(Rep(buffer.buffer, buffer.gbits) and buffer.bitaddr == len(buffer.gbits))
    requires(d_is_int(data) and num_width(type) >= 0)
    modifies(buffer.buffer, buffer.gbits, buffer.bitaddr)
    ensures(Rep(buffer.buffer, buffer.gbits) and buffer.bitaddr == len(buffer.gbits))
    ensures(buffer.gbits == old(buffer.gbits) + word_bits(d_int(data), num_width(type)))


# ---------------------------------------------------------------- assumed: struct.pack / struct.unpack (CPython, IEEE-754)
@assumed("ext:struct.pack")
def pack(fmt: "str", x: "dyn") -> "tuple[str,int]":
    note("struct.pack('<f'|'<d', x) is the IEEE-754 binary32/binary64 image of x, little endian; '<I'/'<Q' of an int is the int")
    requires(fmt == "<f" or fmt == "<d" or fmt == "<I" or fmt == "<Q")
    raises(StructError, iff=(fmt == "<I" and not (0 <= d_int(x) and d_int(x) < 4294967296))
           or (fmt == "<Q" and not (0 <= d_int(x) and d_int(x) < 18446744073709551616)))
    ensures(result[0] == fmt)
    ensures(implies(fmt == "<f", result[1] == f32_bits(d_float(x)) and 0 <= result[1] and result[1] < 4294967296
                    and implies(is_f32(d_float(x)), of_f32_bits(result[1]) == d_float(x))))
    ensures(implies(fmt == "<d", result[1] == f64_bits(d_float(x)) and 0 <= result[1] and result[1] < 18446744073709551616
                    and of_f64_bits(result[1]) == d_float(x)))
    ensures(implies(fmt == "<I" or fmt == "<Q", result[1] == d_int(x)))


@assumed("ext:struct.unpack")
def unpack(fmt: "str", packed: "any") -> "tuple[dyn]":
    note("struct.unpack inverts struct.pack of the same size: '<I' of packed '<f' bytes is the 32-bit word, etc.")
    requires((fmt == "<I" and packed[0] == "<f") or (fmt == "<f" and packed[0] == "<I")
             or (fmt == "<Q" and packed[0] == "<d") or (fmt == "<d" and packed[0] == "<Q"))
    ensures(implies(fmt == "<I" or fmt == "<Q", result[0] == d_mk_int(packed[1])))
    ensures(implies(fmt == "<f", result[0] == d_mk_float(of_f32_bits(packed[1]))))
    ensures(implies(fmt == "<d", result[0] == d_mk_float(of_f64_bits(packed[1]))))


@contract("fcp.serde:_encode_builtin_float")
def _encode_builtin_float(buffer: "_Buffer", type: "ref:FloatType", data: "dyn"):
    requires(BufOK(buffer.buffer, buffer.gbits, buffer.bitaddr))
    requires(d_is_float(data))
    modifies(buffer.buffer, buffer.gbits, buffer.bitaddr)
    ensures(BufOK(buffer.buffer, buffer.gbits, buffer.bitaddr))
    ensures(buffer.gbits == old(buffer.gbits) + word_bits(f32_bits(d_float(data)), 32))


@contract("fcp.serde:_encode_builtin_double")
def _encode_builtin_double(buffer: "_Buffer", type: "ref:DoubleType", data: "dyn"):
    requires(BufOK(buffer.buffer, buffer.gbits, buffer.bitaddr))
    requires(d_is_float(data))
    modifies(buffer.buffer, buffer.gbits, buffer.bitaddr)
    ensures(BufOK(buffer.buffer, buffer.gbits, buffer.bitaddr))
    ensures(buffer.gbits == old(buffer.gbits) + word_bits(f64_bits(d_float(data)), 64))


# ---------------------------------------------------------------- enums
@contract("fcp.specs.enum:Enum.max")
def enum_max(self: "ref:Enum") -> "int":
    note("builtin max/map are modelled by the recursive maximum py_max (spec/builtins.py); lemma max_is_enum_max links it to the spec")
    requires(enum_values_ok(self))
    use_lemma(max_is_enum_max(self, len(self.enumeration)))
    ensures(result == enum_max_from(self.enumeration, len(self.enumeration)) and result >= 0)


@contract("fcp.specs.enum:Enum.get_packed_size")
def get_packed_size(self: "ref:Enum") -> "int":
    requires(enum_values_ok(self))
    ensures(result == enum_width(self))


@contract("fcp.serde:_encode_enum")
def _encode_enum(buffer: "_Buffer", fcp: "ref:FcpV2", type: "ref:EnumType", data: "dyn"):
    requires(BufOK(buffer.buffer, buffer.gbits, buffer.bitaddr))
    requires(conforms(fcp, type, data))
    modifies(buffer.buffer, buffer.gbits, buffer.bitaddr)
    ensures(BufOK(buffer.buffer, buffer.gbits, buffer.bitaddr))
    ensures(buffer.gbits == old(buffer.gbits) + wire(fcp, type, data))


# ---------------------------------------------------------------- containers
@contract("fcp.serde:_encode_str")
def _encode_str(buffer: "_Buffer", fcp: "ref:FcpV2", type: "ref:StringType", data: "dyn"):
    requires(BufOK(buffer.buffer, buffer.gbits, buffer.bitaddr))
    requires(conforms(fcp, type, data))
    modifies(buffer.buffer, buffer.gbits, buffer.bitaddr)
    ensures(BufOK(buffer.buffer, buffer.gbits, buffer.bitaddr))
    ensures(buffer.gbits == old(buffer.gbits) + wire(fcp, type, data))
    loop(0, over="data",
         invariant=lambda it: BufOK(buffer.buffer, buffer.gbits, buffer.bitaddr)
         and buffer.gbits == old(buffer.gbits) + word_bits(len(d_chars(data)), 32) + wire_chars(d_chars(data), it))


@contract("fcp.serde:_encode_struct")
def _encode_struct(buffer: "_Buffer", fcp: "ref:FcpV2", name: "str", data: "dyn"):
    requires(BufOK(buffer.buffer, buffer.gbits, buffer.bitaddr))
    requires(conforms_struct(fcp, name, data))
    modifies(buffer.buffer, buffer.gbits, buffer.bitaddr)
    ensures(BufOK(buffer.buffer, buffer.gbits, buffer.bitaddr))
    ensures(buffer.gbits == old(buffer.gbits) + wire_struct(fcp, name, data))
    loop(0, over="sorted(struct.fields, key=lambda field: field.field_id)",
         invariant=lambda it: BufOK(buffer.buffer, buffer.gbits, buffer.bitaddr)
         and buffer.gbits == old(buffer.gbits) + wire_fields(fcp, sorted_fields(struct_of(fcp, name)), data, it))


@contract("fcp.serde:_encode_array")
def _encode_array(buffer: "_Buffer", fcp: "ref:FcpV2", type: "ref:ArrayType", data: "dyn"):
    requires(BufOK(buffer.buffer, buffer.gbits, buffer.bitaddr))
    requires(conforms(fcp, type, data))
    modifies(buffer.buffer, buffer.gbits, buffer.bitaddr)
    ensures(BufOK(buffer.buffer, buffer.gbits, buffer.bitaddr))
    ensures(buffer.gbits == old(buffer.gbits) + wire(fcp, type, data))
    loop(0, over="range(type.size)",
         invariant=lambda it: BufOK(buffer.buffer, buffer.gbits, buffer.bitaddr)
         and buffer.gbits == old(buffer.gbits) + wire_elems(fcp, type.underlying_type, d_list(data), it))


@contract("fcp.serde:_encode_dynamic_array")
def _encode_dynamic_array(buffer: "_Buffer", fcp: "ref:FcpV2", type: "ref:DynamicArrayType", data: "dyn"):
    requires(BufOK(buffer.buffer, buffer.gbits, buffer.bitaddr))
    requires(conforms(fcp, type, data))
    modifies(buffer.buffer, buffer.gbits, buffer.bitaddr)
    ensures(BufOK(buffer.buffer, buffer.gbits, buffer.bitaddr))
    ensures(buffer.gbits == old(buffer.gbits) + wire(fcp, type, data))
    loop(0, over="data",
         invariant=lambda it: BufOK(buffer.buffer, buffer.gbits, buffer.bitaddr)
         and buffer.gbits == old(buffer.gbits) + word_bits(len(d_list(data)), 32)
         + wire_elems(fcp, type.underlying_type, d_list(data), it))


@contract("fcp.serde:_encode_optional")
def _encode_optional(buffer: "_Buffer", fcp: "ref:FcpV2", type: "ref:OptionalType", data: "dyn"):
    requires(BufOK(buffer.buffer, buffer.gbits, buffer.bitaddr))
    requires(conforms(fcp, type, data))
    modifies(buffer.buffer, buffer.gbits, buffer.bitaddr)
    ensures(BufOK(buffer.buffer, buffer.gbits, buffer.bitaddr))
    ensures(buffer.gbits == old(buffer.gbits) + wire(fcp, type, data))


@contract("fcp.serde:_encode")
def _encode(buffer: "_Buffer", fcp: "ref:FcpV2", type: "ref:Type", data: "dyn"):
    requires(BufOK(buffer.buffer, buffer.gbits, buffer.bitaddr))
    requires(conforms(fcp, type, data))
    modifies(buffer.buffer, buffer.gbits, buffer.bitaddr)
    ensures(BufOK(buffer.buffer, buffer.gbits, buffer.bitaddr))
    ensures(buffer.gbits == old(buffer.gbits) + wire(fcp, type, data))
    option("opaque", ["wire_struct", "conforms_struct"])


@contract("fcp.serde:_Buffer.get_buffer")
def get_buffer(self: "_Buffer") -> "arr":
    ensures(result == self.buffer)


@contract("fcp.serde:encode")
def encode(fcp: "ref:FcpV2", name: "str", data: "dyn") -> "arr":
    requires(conforms_struct(fcp, name, data))
    ensures(Rep(result, wire_struct(fcp, name, data)))
    option("opaque", ["wire_struct", "conforms_struct"])
