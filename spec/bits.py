"""Bit-level specification vocabulary (dual use: translated to SMT by PyVC, importable natively for replay).

Written from the property statements (C01/C02/C16), not from the code: bits are LSB first, a byte list is the
packing of a bit sequence zero-padded to a multiple of 8.
"""
from spec.prelude import *


@pure
def padbit(s: "seq[int]", j: "int") -> "int":
    return s[j] if j < len(s) else 0


@pure
def byte_of(s: "seq[int]", q: "int") -> "int":
    return (padbit(s, 8 * q) + 2 * padbit(s, 8 * q + 1) + 4 * padbit(s, 8 * q + 2) + 8 * padbit(s, 8 * q + 3)
            + 16 * padbit(s, 8 * q + 4) + 32 * padbit(s, 8 * q + 5) + 64 * padbit(s, 8 * q + 6) + 128 * padbit(s, 8 * q + 7))


@pure
def all_bits(s: "seq[int]") -> "bool":
    return forall(0, len(s), lambda j: s[j] == 0 or s[j] == 1)


@pure
def Rep(b: "arr", s: "seq[int]") -> "bool":
    """The byte list b is the canonical packing of the bit sequence s."""
    return (arr_len(b) == (len(s) + 7) // 8 and all_bits(s)
            and forall(0, arr_len(b), lambda q: arr_get(b, q) == byte_of(s, q)))


def word_bits(w: "int", n: "int") -> "seq[int]":
    """bits(w, n): the n low bits of w, LSB first; w may be negative (two's complement falls out of floor division)."""
    if n <= 0:
        return seq_empty("int")
    return word_bits(w, n - 1) + [(w // pw2(n - 1)) % 2]


def val_bits(s: "seq[int]", p: "int", n: "int") -> "int":
    """val(s, p, n) = sum_{i<n} s[p+i] * 2^i (positions past the end of s count as zero padding)."""
    if n <= 0:
        return 0
    return val_bits(s, p, n - 1) + padbit(s, p + n - 1) * pw2(n - 1)


@pure
def BufOK(b: "arr", s: "seq[int]", a: "int") -> "bool":
    """writer state: b packs s and the cursor is at the end"""
    return Rep(b, s) and a == len(s)


@pure
def DecPre(b: "arr", s: "seq[int]", a: "int") -> "bool":
    """reader state: s is the complete bit image of the byte string b, the cursor is a valid position"""
    return Rep(b, s) and a >= 0 and len(s) == 8 * arr_len(b) and a <= len(s)


@pure
def bytes_ok(b: "arr") -> "bool":
    return forall(0, arr_len(b), lambda q: 0 <= arr_get(b, q) and arr_get(b, q) < 256)
