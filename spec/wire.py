"""The canonical FCP wire format as a specification (C01/C02/C15/C16), written from the property statements:
fields in ascending field id, every scalar bit-packed LSB first with no padding, two's complement integers,
IEEE-754 words for floats, a u32 count before strings and dynamic arrays, a one-byte presence flag before
optionals.  Dual use: PyVC translates these definitions to SMT; natively they are the replay oracle."""
from spec.prelude import *
from spec.bits import *
try:  # native use only (PyVC reads this file with `ast` and ignores imports)
    from fcp.specs.type import (Type, NumericType, UnsignedType, SignedType, FloatType, DoubleType, StringType, EnumType,
                                StructType, ArrayType, DynamicArrayType, OptionalType)
except Exception:  # pragma: no cover
    pass


# ---------------------------------------------------------------- floats: opaque values with their IEEE-754 images
_nat = dict(f32_bits=f32_bits, f64_bits=f64_bits, of_f32_bits=of_f32_bits, of_f64_bits=of_f64_bits, is_f32=is_f32)


def f32_bits(x: "float") -> "int":
    ...


def f64_bits(x: "float") -> "int":
    ...


def of_f32_bits(w: "int") -> "float":
    ...


def of_f64_bits(w: "int") -> "float":
    ...


def is_f32(x: "float") -> "bool":
    """x is exactly representable as binary32"""
    ...


globals().update(_nat)   # natively the IEEE-754 images are computed with `struct` (spec/prelude.py)


# ---------------------------------------------------------------- schema look-ups
def first_struct_from(ss: "seq[ref:Struct]", name: "str", i: "int") -> "int":
    """index of the first struct named `name` at or after position i, -1 if none (the look-up FcpV2.get_struct does)"""
    if i < 0 or i >= len(ss):
        return -1
    if ss[i].name == name:
        return i
    return first_struct_from(ss, name, i + 1)


def first_enum_from(es: "seq[ref:Enum]", name: "str", i: "int") -> "int":
    if i < 0 or i >= len(es):
        return -1
    if es[i].name == name:
        return i
    return first_enum_from(es, name, i + 1)


@pure
def has_struct(fcp: "ref:FcpV2", name: "str") -> "bool":
    return first_struct_from(fcp.structs, name, 0) >= 0


@pure
def struct_of(fcp: "ref:FcpV2", name: "str") -> "ref:Struct":
    return fcp.structs[first_struct_from(fcp.structs, name, 0)]


@pure
def has_enum(fcp: "ref:FcpV2", name: "str") -> "bool":
    return first_enum_from(fcp.enums, name, 0) >= 0


@pure
def enum_of(fcp: "ref:FcpV2", name: "str") -> "ref:Enum":
    return fcp.enums[first_enum_from(fcp.enums, name, 0)]


@pure
def sorted_fields(s: "ref:Struct") -> "seq[ref:StructField]":
    return sorted(s.fields, key=lambda f: f.field_id)


# ---------------------------------------------------------------- widths
@pure
def num_width(t: "ref:NumericType") -> "int":
    """u<N>/i<N>/f32/f64: the digits after the first letter"""
    return str_to_int(t.name[1:])


def enum_max_from(es: "seq[ref:Enumeration]", k: "int") -> "int":
    """largest enumerator value among the first k (0 for none)"""
    if k <= 0:
        return 0
    m = enum_max_from(es, k - 1)
    return es[k - 1].value if es[k - 1].value > m else m


@pure
def enum_width(e: "ref:Enum") -> "int":
    """minimal bit width of an enum: bit length of its largest enumerator, at least 1"""
    m = enum_max_from(e.enumeration, len(e.enumeration))
    return 1 if m <= 1 else bitlen(m)


# ---------------------------------------------------------------- the wire image of a value
def wire(fcp: "ref:FcpV2", t: "ref:Type", v: "dyn") -> "seq[int]":
    if isinstance(t, UnsignedType) or isinstance(t, SignedType):
        return word_bits(d_int(v), num_width(t))
    if isinstance(t, FloatType):
        return word_bits(f32_bits(d_float(v)), 32)
    if isinstance(t, DoubleType):
        return word_bits(f64_bits(d_float(v)), 64)
    if isinstance(t, EnumType):
        return word_bits(d_int(v), enum_width(enum_of(fcp, t.name)))
    if isinstance(t, StringType):
        return word_bits(len(d_chars(v)), 32) + wire_chars(d_chars(v), len(d_chars(v)))
    if isinstance(t, StructType):
        return wire_struct(fcp, t.name, v)
    if isinstance(t, ArrayType):
        return wire_elems(fcp, t.underlying_type, d_list(v), t.size)
    if isinstance(t, DynamicArrayType):
        return word_bits(len(d_list(v)), 32) + wire_elems(fcp, t.underlying_type, d_list(v), len(d_list(v)))
    if d_is_none(v):
        return word_bits(0, 8)
    return word_bits(1, 8) + wire(fcp, t.underlying_type, v)


def min_wire(fcp: "ref:FcpV2", t: "ref:Type") -> "int":
    """C16: the fewest bits any value of type t occupies on the wire (what a decoder must consume before it can return)"""
    if isinstance(t, UnsignedType) or isinstance(t, SignedType):
        return num_width(t)
    if isinstance(t, FloatType):
        return 32
    if isinstance(t, DoubleType):
        return 64
    if isinstance(t, EnumType):
        return enum_width(enum_of(fcp, t.name))
    if isinstance(t, StringType):
        return 32
    if isinstance(t, StructType):
        return min_fields(fcp, sorted_fields(struct_of(fcp, t.name)), len(sorted_fields(struct_of(fcp, t.name))))
    if isinstance(t, ArrayType):
        return t.size * min_wire(fcp, t.underlying_type)
    if isinstance(t, DynamicArrayType):
        return 32
    return 8


def min_fields(fcp: "ref:FcpV2", fs: "seq[ref:StructField]", k: "int") -> "int":
    if k <= 0:
        return 0
    return min_fields(fcp, fs, k - 1) + min_wire(fcp, fs[k - 1].type)


def wire_chars(cs: "seq[char]", k: "int") -> "seq[int]":
    if k <= 0:
        return seq_empty("int")
    return wire_chars(cs, k - 1) + word_bits(cs[k - 1], 8)


def wire_elems(fcp: "ref:FcpV2", u: "ref:Type", l: "seq[dyn]", k: "int") -> "seq[int]":
    if k <= 0:
        return seq_empty("int")
    return wire_elems(fcp, u, l, k - 1) + wire(fcp, u, l[k - 1])


def wire_fields(fcp: "ref:FcpV2", fs: "seq[ref:StructField]", v: "dyn", k: "int") -> "seq[int]":
    if k <= 0:
        return seq_empty("int")
    return wire_fields(fcp, fs, v, k - 1) + wire(fcp, fs[k - 1].type, dyn_get(v, fs[k - 1].name))


@pure
def wire_struct(fcp: "ref:FcpV2", name: "str", v: "dyn") -> "seq[int]":
    return wire_fields(fcp, sorted_fields(struct_of(fcp, name)), v, len(sorted_fields(struct_of(fcp, name))))


# ---------------------------------------------------------------- "v is in range for t"
def conforms(fcp: "ref:FcpV2", t: "ref:Type", v: "dyn") -> "bool":
    if isinstance(t, UnsignedType):
        return d_is_int(v) and 1 <= num_width(t) and num_width(t) <= 64 and 0 <= d_int(v) and d_int(v) < pw2(num_width(t))
    if isinstance(t, SignedType):
        return (d_is_int(v) and 1 <= num_width(t) and num_width(t) <= 64
                and 0 - pw2(num_width(t) - 1) <= d_int(v) and d_int(v) < pw2(num_width(t) - 1))
    if isinstance(t, FloatType):
        return d_is_float(v) and is_f32(d_float(v))
    if isinstance(t, DoubleType):
        return d_is_float(v)
    if isinstance(t, EnumType):
        return (d_is_int(v) and has_enum(fcp, t.name) and 0 <= d_int(v)
                and d_int(v) < pw2(enum_width(enum_of(fcp, t.name))) and enum_values_ok(enum_of(fcp, t.name)))
    if isinstance(t, StringType):
        return (d_is_str(v) and len(d_chars(v)) < 4294967296
                and forall(0, len(d_chars(v)), lambda i: 0 <= d_chars(v)[i] and d_chars(v)[i] < 128))
    if isinstance(t, StructType):
        return conforms_struct(fcp, t.name, v)
    if isinstance(t, ArrayType):
        return (d_is_list(v) and len(d_list(v)) == t.size and t.size >= 0
                and forall(0, len(d_list(v)), lambda i: conforms(fcp, t.underlying_type, d_list(v)[i])))
    if isinstance(t, DynamicArrayType):
        return (d_is_list(v) and len(d_list(v)) < 4294967296
                and forall(0, len(d_list(v)), lambda i: conforms(fcp, t.underlying_type, d_list(v)[i])))
    return d_is_none(v) or conforms(fcp, t.underlying_type, v)


@pure
def enum_values_ok(e: "ref:Enum") -> "bool":
    return forall(0, len(e.enumeration), lambda i: e.enumeration[i].value >= 0)


@pure
def conforms_struct(fcp: "ref:FcpV2", name: "str", v: "dyn") -> "bool":
    return (d_is_dict(v) and has_struct(fcp, name)
            and forall(0, len(sorted_fields(struct_of(fcp, name))),
                       lambda i: conforms(fcp, sorted_fields(struct_of(fcp, name))[i].type,
                                          dyn_get(v, sorted_fields(struct_of(fcp, name))[i].name))
                       and map_has(v, sorted_fields(struct_of(fcp, name))[i].name))
            and exact_keys(fcp, name, v))


# ---------------------------------------------------------------- reading side: "the bits of s at position p are the image of v"
def name_among(fs: "seq[ref:StructField]", key: "str", k: "int") -> "bool":
    """key is the name of one of the first k fields"""
    if k <= 0:
        return False
    return fs[k - 1].name == key or name_among(fs, key, k - 1)


@pure
def uval(v: "int", n: "int") -> "int":
    """the unsigned n-bit image of v (two's complement for negative v)"""
    return v if v >= 0 else v + pw2(n)


def starts(fcp: "ref:FcpV2", t: "ref:Type", s: "seq[int]", p: "int", v: "dyn") -> "bool":
    """the bit sequence s holds, from position p on, the canonical image of v as a t, completely"""
    if isinstance(t, UnsignedType) or isinstance(t, SignedType):
        return p + num_width(t) <= len(s) and val_bits(s, p, num_width(t)) == uval(d_int(v), num_width(t))
    if isinstance(t, FloatType):
        return p + 32 <= len(s) and val_bits(s, p, 32) == f32_bits(d_float(v))
    if isinstance(t, DoubleType):
        return p + 64 <= len(s) and val_bits(s, p, 64) == f64_bits(d_float(v))
    if isinstance(t, EnumType):
        return (p + enum_width(enum_of(fcp, t.name)) <= len(s)
                and val_bits(s, p, enum_width(enum_of(fcp, t.name))) == d_int(v))
    if isinstance(t, StringType):
        return (p + 32 + 8 * len(d_chars(v)) <= len(s) and val_bits(s, p, 32) == len(d_chars(v))
                and forall(0, len(d_chars(v)), lambda i: val_bits(s, p + 32 + 8 * i, 8) == d_chars(v)[i]))
    if isinstance(t, StructType):
        return starts_struct(fcp, t.name, s, p, v)
    if isinstance(t, ArrayType):
        return forall(0, t.size, lambda i: starts(fcp, t.underlying_type, s,
                                                  p + len(wire_elems(fcp, t.underlying_type, d_list(v), i)), d_list(v)[i]))
    if isinstance(t, DynamicArrayType):
        return (p + 32 <= len(s) and val_bits(s, p, 32) == len(d_list(v))
                and forall(0, len(d_list(v)),
                           lambda i: starts(fcp, t.underlying_type, s,
                                            p + 32 + len(wire_elems(fcp, t.underlying_type, d_list(v), i)), d_list(v)[i])))
    if d_is_none(v):
        return p + 8 <= len(s) and val_bits(s, p, 8) == 0
    return p + 8 <= len(s) and val_bits(s, p, 8) == 1 and starts(fcp, t.underlying_type, s, p + 8, v)


@pure
def starts_struct(fcp: "ref:FcpV2", name: "str", s: "seq[int]", p: "int", v: "dyn") -> "bool":
    return forall(0, len(sorted_fields(struct_of(fcp, name))),
                  lambda k: starts(fcp, sorted_fields(struct_of(fcp, name))[k].type, s,
                                   p + len(wire_fields(fcp, sorted_fields(struct_of(fcp, name)), v, k)),
                                   dyn_get(v, sorted_fields(struct_of(fcp, name))[k].name)))


@pure
def exact_keys(fcp: "ref:FcpV2", name: "str", v: "dyn") -> "bool":
    """v has no keys other than the field names of the struct"""
    return forall("str", lambda key: implies(map_has(v, key),
                                             name_among(sorted_fields(struct_of(fcp, name)), key,
                                                        len(sorted_fields(struct_of(fcp, name))))))


def unpack_bits(b: "arr", k: "int") -> "seq[int]":
    """the 8*k bits of the first k bytes of b, LSB first"""
    if k <= 0:
        return seq_empty("int")
    return unpack_bits(b, k - 1) + [arr_get(b, k - 1) % 2, (arr_get(b, k - 1) // 2) % 2, (arr_get(b, k - 1) // 4) % 2,
                                    (arr_get(b, k - 1) // 8) % 2, (arr_get(b, k - 1) // 16) % 2, (arr_get(b, k - 1) // 32) % 2,
                                    (arr_get(b, k - 1) // 64) % 2, (arr_get(b, k - 1) // 128) % 2]


@pure
def bits_of_bytes(b: "arr") -> "seq[int]":
    """all 8*len(b) bits of a byte string, LSB first"""
    return unpack_bits(b, arr_len(b))


# ---------------------------------------------------------------- schema well-formedness as far as the codec needs it (C08 establishes it)
def wf_type(fcp: "ref:FcpV2", t: "ref:Type") -> "bool":
    if isinstance(t, UnsignedType) or isinstance(t, SignedType):
        return 1 <= num_width(t) and num_width(t) <= 64
    if isinstance(t, FloatType):
        return t.name == "f32"
    if isinstance(t, DoubleType):
        return t.name == "f64"
    if isinstance(t, StringType):
        return True
    if isinstance(t, EnumType):
        return has_enum(fcp, t.name) and enum_values_ok(enum_of(fcp, t.name)) and enum_width(enum_of(fcp, t.name)) <= 64
    if isinstance(t, StructType):
        return wf_struct(fcp, t.name)
    if isinstance(t, ArrayType):
        return t.size >= 0 and wf_type(fcp, t.underlying_type)
    return wf_type(fcp, t.underlying_type)


@pure
def wf_struct(fcp: "ref:FcpV2", name: "str") -> "bool":
    return has_struct(fcp, name) and forall(0, len(sorted_fields(struct_of(fcp, name))),
                                            lambda k: wf_type(fcp, sorted_fields(struct_of(fcp, name))[k].type))


@pure
def has_struct_in(ss: "seq[ref:Struct]", name: "str") -> "bool":
    return first_struct_from(ss, name, 0) >= 0


@pure
def has_enum_in(es: "seq[ref:Enum]", name: "str") -> "bool":
    return first_enum_from(es, name, 0) >= 0


# ---------------------------------------------------------------- suffix forms (only used by the round-trip lemmas)
def wire_chars_from(cs: "seq[char]", i: "int", n: "int") -> "seq[int]":
    if i >= n:
        return seq_empty("int")
    return word_bits(cs[i], 8) + wire_chars_from(cs, i + 1, n)


def wire_elems_from(fcp: "ref:FcpV2", u: "ref:Type", l: "seq[dyn]", i: "int", n: "int") -> "seq[int]":
    if i >= n:
        return seq_empty("int")
    return wire(fcp, u, l[i]) + wire_elems_from(fcp, u, l, i + 1, n)


def wire_fields_from(fcp: "ref:FcpV2", fs: "seq[ref:StructField]", v: "dyn", i: "int", n: "int") -> "seq[int]":
    if i >= n:
        return seq_empty("int")
    return wire(fcp, fs[i].type, dyn_get(v, fs[i].name)) + wire_fields_from(fcp, fs, v, i + 1, n)


@pure
def pad_of(b: "arr", s: "seq[int]") -> "seq[int]":
    """the padding bits after s in the last byte of its packing b"""
    return seq_extract(bits_of_bytes(b), len(s), 8 * arr_len(b) - len(s))


# ---------------------------------------------------------------- C16: truncated inputs
@pure
def is_prefix(g: "seq[int]", f: "seq[int]") -> "bool":
    """g is an initial segment of f"""
    return len(g) <= len(f) and forall(0, len(g), lambda i: g[i] == f[i])


@pure
def trunc_pre(fcp: "ref:FcpV2", t: "ref:Type", g: "seq[int]", f: "seq[int]", p: "int", v: "dyn") -> "bool":
    """the buffer g is a prefix of an input f that holds the image of a conforming value v at p"""
    return is_prefix(g, f) and conforms(fcp, t, v) and starts(fcp, t, f, p, v)


@pure
def short_in(fcp: "ref:FcpV2", t: "ref:Type", g: "seq[int]", f: "seq[int]", p: "int", v: "dyn") -> "bool":
    """... and g ends before that image does: a decoder reading g at p must raise"""
    return trunc_pre(fcp, t, g, f, p, v) and len(g) < p + len(wire(fcp, t, v))


def rt_hyp(fcp: "ref:FcpV2", name: "str", s: "seq[int]", p: "int", v: "dyn") -> "bool":
    """the hypothesis of the struct decoder's read-back clause, as one (deliberately non-inlined) predicate"""
    return conforms_struct(fcp, name, v) and starts_struct(fcp, name, s, p, v)


def trunc_hyp(fcp: "ref:FcpV2", name: "str", g: "seq[int]", f: "seq[int]", p: "int", v: "dyn") -> "bool":
    """g is a prefix of an input f that holds the image of a conforming struct value v at p"""
    return is_prefix(g, f) and conforms_struct(fcp, name, v) and starts_struct(fcp, name, f, p, v)
