"""C15: two schemas that differ only in the order in which the fields of their structs are written."""
from spec.prelude import *


@pure
def twin(f1: "ref:FcpV2", f2: "ref:FcpV2") -> "bool":
    """same structs with the same fields (compared after sorting by field id), same enums: what permuting the declaration order of
    struct fields, ids kept, does to a schema"""
    return forall("str", lambda n: has_struct(f1, n) == has_struct(f2, n) and has_enum(f1, n) == has_enum(f2, n)
                  and sorted_fields(struct_of(f1, n)) == sorted_fields(struct_of(f2, n)) and enum_of(f1, n) == enum_of(f2, n))


@pure
def elem_at(l: "seq[dyn]", i: "int") -> "dyn":
    """l[i] as a specification term (total: unspecified outside the list, exactly as wire_elems reads it)"""
    return l[i]


@pure
def field_at(fs: "seq[ref:StructField]", i: "int") -> "ref:StructField":
    return fs[i]
