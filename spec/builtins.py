"""Models of Python builtins over lists, as recursive definitions (the assumption is that CPython's builtin computes this)."""
from spec.prelude import *


def py_max(s: "seq[int]", k: "int", d: "int") -> "int":
    """max(s[0:k], default=d)"""
    if k <= 0:
        return d
    if k == 1:
        return s[0]
    m = py_max(s, k - 1, d)
    return s[k - 1] if s[k - 1] > m else m
