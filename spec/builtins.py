"""Models of Python builtins over lists, as recursive definitions (the assumption is that CPython's builtin computes this)."""
from spec.prelude import *


def py_max(s: "seq[int]", k: "int", d: "int") -> "int":
    """max(s[0:k], default=d)"""
    if k <= 0:
        return d
    if k == 1:
        return s[0]
    m = py_max(s, k - 1, d)
    return s[k - 1] if s[k - 1] > m else m


def flat_pairs(xss: "seq[seq[tuple[ref,ref]]]", n: "int") -> "seq[tuple[ref,ref]]":
    """[x for xs in xss[0:n] for x in xs] for lists of pairs: concatenation of the first n inner lists, in order"""
    if n <= 0:
        return []
    return flat_pairs(xss, n - 1) + xss[n - 1]


def flat_refs(xss: "seq[seq[ref]]", n: "int") -> "seq[ref]":
    """[x for xs in xss[0:n] for x in xs] for lists of objects"""
    if n <= 0:
        return []
    return flat_refs(xss, n - 1) + xss[n - 1]


def py_sum(s: "seq[int]", k: "int") -> "int":
    """sum(s[0:k])"""
    if k <= 0:
        return 0
    return py_sum(s, k - 1) + s[k - 1]
