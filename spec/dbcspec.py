"""C05/C14, file level: what write_dbc must return - one DBC per bus, in order of first use of the bus, holding exactly the
messages of the CAN bindings bound to that bus, in binding order, each with the binding's frame id and name."""
from spec.prelude import *


def matching(impls: "seq[ref:Impl]", p: "str", n: "int") -> "seq[ref:Impl]":
    """the bindings with protocol p among the first n, in order (what FcpV2.get_matching_impls yields)"""
    if n <= 0:
        return []
    return matching(impls, p, n - 1) + ([impls[n - 1]] if impls[n - 1].protocol == p else [])


@pure
def can_impls(fcp: "ref:FcpV2") -> "seq[ref:Impl]":
    return matching(fcp.impls, "can", len(fcp.impls))


@pure
def bus_of(i: "ref:Impl") -> "str":
    return ite(is_none(i.fields.get("bus")), "default", i.fields.get("bus"))


def bus_keys(cis: "seq[ref:Impl]", n: "int") -> "seq[str]":
    """the distinct bus names of the first n bindings, in order of first use"""
    if n <= 0:
        return []
    return bus_keys(cis, n - 1) + ([] if seq_contains(bus_keys(cis, n - 1), bus_of(cis[n - 1])) else [bus_of(cis[n - 1])])


def bus_impls(cis: "seq[ref:Impl]", n: "int", b: "str") -> "seq[ref:Impl]":
    """the bindings on bus b among the first n, in order"""
    if n <= 0:
        return []
    return bus_impls(cis, n - 1, b) + ([cis[n - 1]] if bus_of(cis[n - 1]) == b else [])


@pure
def msg_ok(m: "ref:DbcMessage", fcp: "ref:FcpV2", i: "ref:Impl") -> "bool":
    """the message object built for binding i: its frame id and name, one signal per layout leaf"""
    return (m.frame_id == i.fields.get("id") and m.name == i.name
            and len(m.signals) == len(layout_names(fcp, i)))


@pure
def group_ok(ms: "seq[dyn]", fcp: "ref:FcpV2", cis: "seq[ref:Impl]", n: "int", b: "str") -> "bool":
    """ms is the message list of bus b after the first n bindings"""
    return (len(ms) == len(bus_impls(cis, n, b))
            and forall(0, len(ms), lambda m: msg_ok(d_ref(ms[m], "DbcMessage"), fcp, bus_impls(cis, n, b)[m])))


@pure
def layout_names(fcp: "ref:FcpV2", i: "ref:Impl") -> "seq[str]":
    return struct_names(fcp, sorted_fields(struct_of(fcp, i.type)), "", True, len(sorted_fields(struct_of(fcp, i.type))))


@pure
def impl_fits(fcp: "ref:FcpV2", i: "ref:Impl") -> "bool":
    """C14: only bindings whose struct has a static packed size and that carry a frame id are described"""
    return all_fixed_struct(fcp, i.type, True) and not is_none(i.fields.get("id"))


def db_of_text(s: "str") -> "ref:DbcDatabase":
    """the database an independent DBC reader recovers from the text cantools printed (assumed inverse of as_dbc_string)"""
    ...
