"""C04/C14: the packed CAN layout as a specification (written from the statement): scalar leaves after flattening nested
structs (and unrolling arrays when requested), in ascending field id, hierarchical names, wire widths, gap-free tiling."""
from spec.prelude import *


def type_width(fcp: "ref:FcpV2", t: "ref:Type") -> "int":
    """wire width of a fixed-size leaf type"""
    if isinstance(t, UnsignedType) or isinstance(t, SignedType) or isinstance(t, FloatType) or isinstance(t, DoubleType):
        return num_width(t)
    if isinstance(t, ArrayType):
        return t.size * type_width(fcp, t.underlying_type)
    if isinstance(t, EnumType):
        return enum_width(enum_of(fcp, t.name))
    return 0 - 1


def fixed_size(fcp: "ref:FcpV2", t: "ref:Type") -> "bool":
    """t is a leaf the packed encoder can size: numeric, enum, array of such (string, dynamic array, optional and
    struct-typed array elements have no static packed size)"""
    if isinstance(t, UnsignedType) or isinstance(t, SignedType) or isinstance(t, FloatType) or isinstance(t, DoubleType):
        return True
    if isinstance(t, ArrayType):
        return fixed_size(fcp, t.underlying_type)
    if isinstance(t, EnumType):
        return True
    return False


@pure
def piece_end(v: "ref:Value") -> "int":
    return v.bitstart + v.bitlength


@pure
def tiled(enc: "seq[ref:Value]", cursor: "int", names: "seq[str]") -> "bool":
    """the first piece starts at bit 0, every piece starts where the previous one ends (no gaps, no overlaps), every piece is
    at least one bit wide, the cursor is at the end of the last piece; `names` is the list of the pieces' names"""
    return ((len(enc) == 0 or enc[0].bitstart == 0)
            and forall(0, len(enc) - 1, lambda k: piece_end(enc[k]) == enc[k + 1].bitstart)
            and cursor == (0 if len(enc) == 0 else piece_end(enc[len(enc) - 1]))
            and len(names) == len(enc) and forall(0, len(enc), lambda k: enc[k].name == names[k]))


@pure
def leafy(fcp: "ref:FcpV2", enc: "seq[ref:Value]", unroll: "bool") -> "bool":
    """every piece is a scalar leaf (numeric or enum) - a whole array is a piece only when arrays are not unrolled - and is
    exactly as wide as the wire image of its type"""
    return forall(0, len(enc), lambda k: (leaf_type(enc[k].type) or (not unroll and isinstance(enc[k].type, ArrayType)))
                  and enc[k].bitlength == type_width(fcp, enc[k].type))


# ---- leaf names / widths of one field, of the first k fields of a struct, of the first k unrolled array elements
def field_names(fcp: "ref:FcpV2", ftype: "ref:Type", fname: "str", prefix: "str", unroll: "bool") -> "seq[str]":
    if isinstance(ftype, StructType):
        return struct_names(fcp, sorted_fields(struct_of(fcp, ftype.name)), prefix + fname + "::", unroll,
                            len(sorted_fields(struct_of(fcp, ftype.name))))
    if isinstance(ftype, ArrayType) and unroll:
        return arr_names(fcp, ftype.underlying_type, fname, prefix, unroll, ftype.size)
    return [prefix + fname]


def arr_names(fcp: "ref:FcpV2", u: "ref:Type", fname: "str", prefix: "str", unroll: "bool", k: "int") -> "seq[str]":
    if k <= 0:
        return seq_empty("str")
    return arr_names(fcp, u, fname, prefix, unroll, k - 1) + field_names(fcp, u, fname + "_" + int_to_str(k - 1), prefix, unroll)


def struct_names(fcp: "ref:FcpV2", fs: "seq[ref:StructField]", prefix: "str", unroll: "bool", k: "int") -> "seq[str]":
    if k <= 0:
        return seq_empty("str")
    return struct_names(fcp, fs, prefix, unroll, k - 1) + field_names(fcp, fs[k - 1].type, fs[k - 1].name, prefix, unroll)


def field_widths(fcp: "ref:FcpV2", ftype: "ref:Type", unroll: "bool") -> "seq[int]":
    if isinstance(ftype, StructType):
        return struct_widths(fcp, sorted_fields(struct_of(fcp, ftype.name)), unroll, len(sorted_fields(struct_of(fcp, ftype.name))))
    if isinstance(ftype, ArrayType) and unroll:
        return arr_widths(fcp, ftype.underlying_type, unroll, ftype.size)
    return [type_width(fcp, ftype)]


def arr_widths(fcp: "ref:FcpV2", u: "ref:Type", unroll: "bool", k: "int") -> "seq[int]":
    if k <= 0:
        return seq_empty("int")
    return arr_widths(fcp, u, unroll, k - 1) + field_widths(fcp, u, unroll)


def struct_widths(fcp: "ref:FcpV2", fs: "seq[ref:StructField]", unroll: "bool", k: "int") -> "seq[int]":
    if k <= 0:
        return seq_empty("int")
    return struct_widths(fcp, fs, unroll, k - 1) + field_widths(fcp, fs[k - 1].type, unroll)


@pure
def names_of(enc: "seq[ref:Value]") -> "seq[str]":
    return [v.name for v in enc]


@pure
def widths_of(enc: "seq[ref:Value]") -> "seq[int]":
    return [v.bitlength for v in enc]


def first_signal_from(ss: "seq[ref:SignalBlock]", name: "str", i: "int") -> "int":
    """index of the first signal block called `name` at or after i, -1 if none"""
    if i < 0 or i >= len(ss):
        return -1
    if ss[i].name == name:
        return i
    return first_signal_from(ss, name, i + 1)


def all_fixed(fcp: "ref:FcpV2", t: "ref:Type", unroll: "bool") -> "bool":
    """every leaf below t has a static packed size"""
    if isinstance(t, StructType):
        return fields_fixed(fcp, sorted_fields(struct_of(fcp, t.name)), unroll, len(sorted_fields(struct_of(fcp, t.name))))
    if isinstance(t, ArrayType) and unroll:
        return t.size <= 0 or all_fixed(fcp, t.underlying_type, unroll)
    return fixed_size(fcp, t)


@pure
def fields_fixed(fcp: "ref:FcpV2", fs: "seq[ref:StructField]", unroll: "bool", k: "int") -> "bool":
    return forall(0, k, lambda j: all_fixed(fcp, fs[j].type, unroll))


@pure
def is_leaf(t: "ref:Type", unroll: "bool") -> "bool":
    return not isinstance(t, StructType) and not (isinstance(t, ArrayType) and unroll)


@pure
def signal_fields_of(ext: "ref:Impl", fname: "str") -> "ref:SignalFields":
    return ext.signals[first_signal_from(ext.signals, fname, 0)].fields


@pure
def leaf_ok(fcp: "ref:FcpV2", v: "ref:Value", field: "ref:StructField", ext: "ref:Impl", prefix: "str", start: "int") -> "bool":
    """the piece laid out for a scalar leaf: name, type, position, wire width, and the options of the signal block that is
    named like the field (and of no other block)"""
    return (v.name == prefix + field.name and v.type == field.type and v.bitstart == start
            and v.bitlength == type_width(fcp, field.type)
            and ite(first_signal_from(ext.signals, field.name, 0) >= 0,
                    v.extended_data == signal_fields_of(ext, field.name)
                    and v.endianess == ite(is_none(signal_fields_of(ext, field.name).get("endianess"))
                                           or signal_fields_of(ext, field.name).get("endianess") == "", "little",
                                           signal_fields_of(ext, field.name).get("endianess")),
                    v.extended_data == empty_options("SignalFields") and v.endianess == "little"))


@pure
def fields_fixed_or_raised(fcp: "ref:FcpV2", fs: "seq[ref:StructField]", unroll: "bool", k: "int") -> "bool":
    return True


@pure
def all_fixed_struct(fcp: "ref:FcpV2", name: "str", unroll: "bool") -> "bool":
    return fields_fixed(fcp, sorted_fields(struct_of(fcp, name)), unroll, len(sorted_fields(struct_of(fcp, name))))


# ---------------------------------------------------------------- C05: the DBC signal that describes one layout piece
@pure
def type_signed(t: "ref:Type") -> "bool":
    """two's complement integer types are the ones whose name starts with i"""
    return (isinstance(t, SignedType) or isinstance(t, UnsignedType) or isinstance(t, FloatType) or isinstance(t, DoubleType)) \
        and t.name[0] == "i"


@pure
def type_float(t: "ref:Type") -> "bool":
    return isinstance(t, FloatType) or isinstance(t, DoubleType)


@pure
def mux_names(enc: "seq[ref:Value]") -> "seq[dyn]":
    return [piece.extended_data.get("mux_signal") for piece in enc if piece.extended_data.get("mux_signal") is not None]


@pure
def sig_ok(s: "ref:DbcSignal", p: "ref:Value", enc: "seq[ref:Value]") -> "bool":
    """the cantools signal built for piece p: same position (DBC start bit of a big-endian signal is its MSB: +7 for a
    byte-aligned field), width, byte order, signedness, float marking, unit and multiplexing"""
    return (s.name == p.name.replace("::", "_")
            and s.start == (p.bitstart + 7 if p.endianess != "little" else p.bitstart)
            and s.length == p.bitlength
            and s.byte_order == ("big_endian" if p.endianess == "big" else "little_endian")
            and s.is_signed == type_signed(p.type)
            and s.is_float == type_float(p.type)
            and to_dyn(s.unit) == to_dyn(p.unit)
            and to_dyn(s.multiplexer_signal) == to_dyn(p.extended_data.get("mux_signal"))
            and s.is_multiplexer == seq_contains(mux_names(enc), to_dyn(p.name))
            and is_none(s.multiplexer_ids) == is_none(p.extended_data.get("mux_count")))


@pure
def leaf_type(t: "ref:Type") -> "bool":
    """layout leaves are numeric, enum or (not unrolled) array types with a well-formed name"""
    return ((isinstance(t, UnsignedType) or isinstance(t, SignedType) or isinstance(t, FloatType) or isinstance(t, DoubleType))
            and len(t.name) >= 1) or isinstance(t, EnumType)


# ---------------------------------------------------------------- C14: the size the C plug-in's check computes (Type.get_length)
def decl_bits(t: "ref:Type") -> "int":
    """what get_length() returns where it is defined: the declared width of numeric types, size * element for arrays"""
    if isinstance(t, UnsignedType) or isinstance(t, SignedType) or isinstance(t, FloatType) or isinstance(t, DoubleType):
        return num_width(t)
    if isinstance(t, ArrayType):
        return decl_bits(t.underlying_type) * t.size
    return 0


def has_decl_bits(t: "ref:Type") -> "bool":
    """get_length() is defined (does not raise): numeric types with a decimal width, arrays of such"""
    if isinstance(t, UnsignedType) or isinstance(t, SignedType) or isinstance(t, FloatType) or isinstance(t, DoubleType):
        return num_width(t) >= 0
    if isinstance(t, ArrayType):
        return has_decl_bits(t.underlying_type)
    return False


def decl_sum(fs: "seq[ref:StructField]", k: "int") -> "int":
    if k <= 0:
        return 0
    return decl_sum(fs, k - 1) + decl_bits(fs[k - 1].type)
