"""C12: what the reflection record of each schema node must contain (written from the statement: every declared value)."""
from spec.prelude import *
try:  # native use only (PyVC reads this file with `ast` and ignores imports)
    from fcp.specs.type import (Type, NumericType, UnsignedType, SignedType, FloatType, DoubleType, StringType, EnumType,
                                StructType, ArrayType, DynamicArrayType, OptionalType)
except Exception:  # pragma: no cover
    pass


@pure
def rec3(name: "dyn", type: "dyn", size: "dyn") -> "dyn":
    return d_set(d_set(d_set(d_mk_dict_empty(), "name", name), "type", type), "size", size)


def type_chain(t: "ref:Type") -> "seq[dyn]":
    """the flattened type chain: one {name, type, size} record per type constructor, outermost first"""
    if isinstance(t, UnsignedType) or isinstance(t, SignedType) or isinstance(t, FloatType) or isinstance(t, DoubleType):
        return [rec3(to_dyn(t.name), to_dyn(t.type), d_mk_int(1))]
    if isinstance(t, StringType):
        return [rec3(to_dyn("str"), to_dyn("str"), d_mk_int(1))]
    if isinstance(t, EnumType):
        return [rec3(to_dyn(t.name), to_dyn("Enum"), d_mk_int(1))]
    if isinstance(t, StructType):
        return [rec3(to_dyn(t.name), to_dyn("Struct"), d_mk_int(1))]
    if isinstance(t, ArrayType):
        return [rec3(to_dyn(t.type), to_dyn(t.type), d_mk_int(t.size))] + type_chain(t.underlying_type)
    return [rec3(to_dyn(t.type), to_dyn(t.type), d_mk_int(1))] + type_chain(t.underlying_type)


# ---------------------------------------------------------------- record predicates: "d is the reflection record of node x"
# Written from the statement: every declared value appears, under the key the reflection schema names, and nothing else
# does (only_keys).  Lists are pointwise: same length, k-th record describes the k-th declared node.
@pure
def meta_ok(d: "dyn", m: "opt[ref:MetaData]") -> "bool":
    return ite(is_none(m), d_is_none(d), is_meta(d, m))


@pure
def is_meta(d: "dyn", m: "ref:MetaData") -> "bool":
    return (dyn_get(d, "line") == d_mk_int(m.line) and dyn_get(d, "end_line") == d_mk_int(m.end_line)
            and dyn_get(d, "column") == d_mk_int(m.column) and dyn_get(d, "end_column") == d_mk_int(m.end_column)
            and dyn_get(d, "start_pos") == d_mk_int(m.start_pos) and dyn_get(d, "end_pos") == d_mk_int(m.end_pos)
            and dyn_get(d, "filename") == to_dyn(m.filename))


def is_field_rec(d: "dyn", f: "ref:StructField") -> "bool":
    return (d_is_dict(d) and dyn_get(d, "name") == to_dyn(f.name) and dyn_get(d, "field_id") == d_mk_int(f.field_id)
            and dyn_get(d, "type") == d_mk_list(type_chain(f.type))
            and dyn_get(d, "unit") == to_dyn(f.unit)
            and dyn_get(d, "min_value") == to_dyn(f.min_value) and dyn_get(d, "max_value") == to_dyn(f.max_value)
            and meta_ok(dyn_get(d, "meta"), f.meta)
            and forall("str", lambda k: implies(k != "name" and k != "field_id" and k != "type" and k != "unit"
                                                and k != "min_value" and k != "max_value" and k != "meta",
                                                dyn_get(d, k) == d_absent())))


def is_struct_rec(d: "dyn", s: "ref:Struct") -> "bool":
    return (d_is_dict(d) and dyn_get(d, "name") == to_dyn(s.name) and d_is_list(dyn_get(d, "fields"))
            and len(d_list(dyn_get(d, "fields"))) == len(s.fields)
            and forall(0, len(s.fields), lambda k: is_field_rec(d_list(dyn_get(d, "fields"))[k], s.fields[k]))
            and meta_ok(dyn_get(d, "meta"), s.meta)
            and forall("str", lambda k: implies(k != "name" and k != "fields" and k != "meta", dyn_get(d, k) == d_absent())))


def is_enumeration_rec(d: "dyn", e: "ref:Enumeration") -> "bool":
    return (d_is_dict(d) and dyn_get(d, "name") == to_dyn(e.name) and dyn_get(d, "value") == d_mk_int(e.value)
            and meta_ok(dyn_get(d, "meta"), e.meta)
            and forall("str", lambda k: implies(k != "name" and k != "value" and k != "meta", dyn_get(d, k) == d_absent())))


def is_enum_rec(d: "dyn", e: "ref:Enum") -> "bool":
    return (d_is_dict(d) and dyn_get(d, "name") == to_dyn(e.name) and d_is_list(dyn_get(d, "enumeration"))
            and len(d_list(dyn_get(d, "enumeration"))) == len(e.enumeration)
            and forall(0, len(e.enumeration), lambda k: is_enumeration_rec(d_list(dyn_get(d, "enumeration"))[k], e.enumeration[k]))
            and meta_ok(dyn_get(d, "meta"), e.meta)
            and forall("str", lambda k: implies(k != "name" and k != "enumeration" and k != "meta", dyn_get(d, k) == d_absent())))


@pure
def is_kv_list(d: "dyn", items: "seq[tuple[str,dyn]]") -> "bool":
    """an open options dict is listed as {name, value} pairs in declaration order, the value as its str()"""
    return (d_is_list(d) and len(d_list(d)) == len(items)
            and forall(0, len(items), lambda k: dyn_get(d_list(d)[k], "name") == to_dyn(items[k][0])
                       and dyn_get(d_list(d)[k], "value") == to_dyn(py_str(items[k][1]))
                       and forall("str", lambda q: implies(q != "name" and q != "value", dyn_get(d_list(d)[k], q) == d_absent()))))


def is_signal_block_rec(d: "dyn", b: "ref:SignalBlock") -> "bool":
    return (d_is_dict(d) and dyn_get(d, "name") == to_dyn(b.name) and is_kv_list(dyn_get(d, "fields"), list(b.fields.items()))
            and meta_ok(dyn_get(d, "meta"), b.meta)
            and forall("str", lambda k: implies(k != "name" and k != "fields" and k != "meta", dyn_get(d, k) == d_absent())))


def is_impl_rec(d: "dyn", i: "ref:Impl") -> "bool":
    return (d_is_dict(d) and dyn_get(d, "name") == to_dyn(i.name) and dyn_get(d, "protocol") == to_dyn(i.protocol)
            and dyn_get(d, "type") == to_dyn(i.type) and is_kv_list(dyn_get(d, "fields"), list(i.fields.items()))
            and d_is_list(dyn_get(d, "signals")) and len(d_list(dyn_get(d, "signals"))) == len(i.signals)
            and forall(0, len(i.signals), lambda k: is_signal_block_rec(d_list(dyn_get(d, "signals"))[k], i.signals[k]))
            and meta_ok(dyn_get(d, "meta"), i.meta)
            and forall("str", lambda k: implies(k != "name" and k != "protocol" and k != "type" and k != "fields"
                                                and k != "signals" and k != "meta", dyn_get(d, k) == d_absent())))


def is_method_rec(d: "dyn", m: "ref:Method") -> "bool":
    return (d_is_dict(d) and dyn_get(d, "name") == to_dyn(m.name) and dyn_get(d, "id") == d_mk_int(m.id)
            and dyn_get(d, "input") == to_dyn(m.input) and dyn_get(d, "output") == to_dyn(m.output)
            and meta_ok(dyn_get(d, "meta"), m.meta)
            and forall("str", lambda k: implies(k != "name" and k != "id" and k != "input" and k != "output" and k != "meta",
                                                dyn_get(d, k) == d_absent())))


def is_service_rec(d: "dyn", s: "ref:Service") -> "bool":
    return (d_is_dict(d) and dyn_get(d, "name") == to_dyn(s.name) and dyn_get(d, "id") == d_mk_int(s.id)
            and d_is_list(dyn_get(d, "methods")) and len(d_list(dyn_get(d, "methods"))) == len(s.methods)
            and forall(0, len(s.methods), lambda k: is_method_rec(d_list(dyn_get(d, "methods"))[k], s.methods[k]))
            and meta_ok(dyn_get(d, "meta"), s.meta)
            and forall("str", lambda k: implies(k != "name" and k != "id" and k != "methods" and k != "meta",
                                                dyn_get(d, k) == d_absent())))


@pure
def is_fcp_rec(d: "dyn", f: "ref:FcpV2") -> "bool":
    """the statement of C12, second sentence: every struct, enum, binding and service, in declaration order"""
    return (d_is_dict(d)
            and dyn_get(d, "tag") == d_mk_list([d_mk_int(102), d_mk_int(99), d_mk_int(112)])
            and dyn_get(d, "version") == d_mk_int(version_code(f.version))
            and d_is_list(dyn_get(d, "structs")) and len(d_list(dyn_get(d, "structs"))) == len(f.structs)
            and forall(0, len(f.structs), lambda k: is_struct_rec(d_list(dyn_get(d, "structs"))[k], f.structs[k]))
            and d_is_list(dyn_get(d, "enums")) and len(d_list(dyn_get(d, "enums"))) == len(f.enums)
            and forall(0, len(f.enums), lambda k: is_enum_rec(d_list(dyn_get(d, "enums"))[k], f.enums[k]))
            and d_is_list(dyn_get(d, "impls")) and len(d_list(dyn_get(d, "impls"))) == len(f.impls)
            and forall(0, len(f.impls), lambda k: is_impl_rec(d_list(dyn_get(d, "impls"))[k], f.impls[k]))
            and d_is_list(dyn_get(d, "services")) and len(d_list(dyn_get(d, "services"))) == len(f.services)
            and forall(0, len(f.services), lambda k: is_service_rec(d_list(dyn_get(d, "services"))[k], f.services[k]))
            and forall("str", lambda k: implies(k != "tag" and k != "version" and k != "structs" and k != "enums"
                                                and k != "impls" and k != "services", dyn_get(d, k) == d_absent())))


@pure
def version_ok(v: "str") -> "bool":
    """'major.minor' with two non-negative decimal numerals"""
    return len(v.split(".")) == 2 and str_to_int(v.split(".")[0]) >= 0 and str_to_int(v.split(".")[1]) >= 0


@pure
def version_code(v: "str") -> "int":
    """'major.minor' -> major * 1000 + minor"""
    return str_to_int(v.split(".")[0]) * 1000 + str_to_int(v.split(".")[1])
