"""C12: what the reflection record of each schema node must contain (written from the statement: every declared value)."""
from spec.prelude import *


@pure
def rec3(name: "dyn", type: "dyn", size: "dyn") -> "dyn":
    return d_set(d_set(d_set(d_mk_dict_empty(), "name", name), "type", type), "size", size)


def type_chain(t: "ref:Type") -> "seq[dyn]":
    """the flattened type chain: one {name, type, size} record per type constructor, outermost first"""
    if isinstance(t, UnsignedType) or isinstance(t, SignedType) or isinstance(t, FloatType) or isinstance(t, DoubleType):
        return [rec3(to_dyn(t.name), to_dyn(t.type), d_mk_int(1))]
    if isinstance(t, StringType):
        return [rec3(to_dyn("str"), to_dyn("str"), d_mk_int(1))]
    if isinstance(t, EnumType):
        return [rec3(to_dyn(t.name), to_dyn("Enum"), d_mk_int(1))]
    if isinstance(t, StructType):
        return [rec3(to_dyn(t.name), to_dyn("Struct"), d_mk_int(1))]
    if isinstance(t, ArrayType):
        return [rec3(to_dyn(t.type), to_dyn(t.type), d_mk_int(t.size))] + type_chain(t.underlying_type)
    return [rec3(to_dyn(t.type), to_dyn(t.type), d_mk_int(1))] + type_chain(t.underlying_type)
