"""Native definitions of the spec forms, so that spec modules are importable under CPython for replay.
PyVC never executes this file: it interprets the same names symbolically (pv/callm.py spec_form)."""


def pure(f):
    return f


def native_only(f):
    return f


STR_UNIVERSE = set()        # native stand-in for "all strings": the replay harness puts every key it meets in here


def forall(lo, hi=None, p=None):
    if p is None:             # forall("str", lambda k: ...): over the native universe of strings
        return all(hi(k) for k in sorted(STR_UNIVERSE | {"\x00no-such-key"}))
    return all(p(i) for i in range(lo, hi))


def exists(lo, hi, p):
    return any(p(i) for i in range(lo, hi))


def implies(a, b):
    return (not a) or b


def iff(a, b):
    return bool(a) == bool(b)


def ite(c, a, b):
    return a if c else b


def seq_empty(sort):
    return []


def seq_unit(x):
    return [x]


def arr_len(b):
    return len(b)


def arr_get(b, i):
    return b[i]


def pw2(n):
    return 2 ** n


def count(s, x):
    return list(s).count(x)


def let(v, f):
    return f(v)


def d_int(v):
    return v


def d_float(v):
    return v


def d_list(v):
    return v


def d_name(v):
    return v


def d_chars(v):
    return [ord(c) for c in v]


def d_is_int(v):
    return isinstance(v, int) and not isinstance(v, bool)


def d_is_float(v):
    return isinstance(v, float)


def d_is_list(v):
    return isinstance(v, list)


def d_is_str(v):
    return isinstance(v, str)


def d_is_dict(v):
    return isinstance(v, dict)


def d_is_none(v):
    return v is None


def dyn_get(v, k):
    return v[k] if isinstance(v, dict) and k in v else ABSENT


def map_has(v, k):
    return k in v


def bitlen(m):
    return m.bit_length()


def str_to_int(s):
    return int(s)
def size(x):
    return len(x)


# ---- native-only helpers (PyVC has its own symbolic versions)
import struct as _struct


class _Absent:
    def __repr__(self):
        return "ABSENT"


ABSENT = _Absent()


def d_absent():
    return ABSENT


def to_dyn(x):
    return x


def d_mk_int(x):
    return x


def d_mk_float(x):
    return x


def d_mk_str(x):
    return x


def d_mk_list(x):
    return list(x)


def d_mk_dict_empty():
    return {}


def d_set(d, k, v):
    r = dict(d)
    r[k] = v
    return r


def is_none(x):
    return x is None


def py_str(x):
    return str(x)


def f32_bits(x):
    return _struct.unpack("<I", _struct.pack("<f", x))[0]


def f64_bits(x):
    return _struct.unpack("<Q", _struct.pack("<d", x))[0]


def of_f32_bits(w):
    return _struct.unpack("<f", _struct.pack("<I", w))[0]


def of_f64_bits(w):
    return _struct.unpack("<d", _struct.pack("<Q", w))[0]


def is_f32(x):
    try:
        return of_f32_bits(f32_bits(x)) == x or x != x
    except (OverflowError, _struct.error):
        return False


def bytes_of_bits(s):
    """the canonical packing of a bit sequence (the unique b with Rep(b, s))"""
    out = []
    for q in range((len(s) + 7) // 8):
        out.append(sum((s[8 * q + i] if 8 * q + i < len(s) else 0) << i for i in range(8)))
    return out
