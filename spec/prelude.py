"""Native definitions of the spec forms, so that spec modules are importable under CPython for replay.
PyVC never executes this file: it interprets the same names symbolically (pv/callm.py spec_form)."""


def pure(f):
    return f


def native_only(f):
    return f


def forall(lo, hi, p):
    return all(p(i) for i in range(lo, hi))


def exists(lo, hi, p):
    return any(p(i) for i in range(lo, hi))


def implies(a, b):
    return (not a) or b


def iff(a, b):
    return bool(a) == bool(b)


def ite(c, a, b):
    return a if c else b


def seq_empty(sort):
    return []


def seq_unit(x):
    return [x]


def arr_len(b):
    return len(b)


def arr_get(b, i):
    return b[i]


def pw2(n):
    return 2 ** n


def count(s, x):
    return list(s).count(x)


def let(v, f):
    return f(v)
