"""C09: the well-formedness specification, clause by clause, written from the property statement.  Each clause is the
negation of "some check named X rejects node n"; `check_err` gives, per check name, the rejection predicate."""
from spec.prelude import *


@pure
def type_names(fcp: "ref:FcpV2") -> "seq[str]":
    return [t.name for t in fcp.structs + fcp.enums]


@pure
def dup_typename(fcp: "ref:FcpV2", node: "ref:Struct") -> "bool":
    """the name of this struct/enum is used by more than one struct or enum"""
    return count(type_names(fcp), node.name) > 1


@pure
def dup_field(s: "ref:Struct", f: "ref:StructField") -> "bool":
    return count([x.name for x in s.fields], f.name) > 1


@pure
def empty_struct(s: "ref:Struct") -> "bool":
    return len(s.fields) == 0


@pure
def dup_enumerator_name(e: "ref:Enum") -> "bool":
    return exists(0, len(e.enumeration), lambda i: count([x.name for x in e.enumeration], e.enumeration[i].name) > 1)


@pure
def dup_enumerator_value(e: "ref:Enum") -> "bool":
    return exists(0, len(e.enumeration), lambda i: count([x.value for x in e.enumeration], e.enumeration[i].value) > 1)


@pure
def dup_impl(fcp: "ref:FcpV2", i: "ref:Impl") -> "bool":
    """another binding has the same (name, protocol) pair"""
    return count([(x.name, x.protocol) for x in fcp.impls], (i.name, i.protocol)) > 1


@pure
def service_names(fcp: "ref:FcpV2") -> "seq[str]":
    return [s.name for s in fcp.services]


@pure
def device_ok(fcp: "ref:FcpV2", d: "ref:Device") -> "bool":
    """every service the device lists exists"""
    return is_none(d.fields.get("services")) or forall(
        0, len(d.fields.get("services")), lambda j: seq_contains(service_names(fcp), d.fields.get("services")[j]))


@pure
def missing_service(fcp: "ref:FcpV2") -> "bool":
    return exists(0, len(fcp.devices), lambda k: not device_ok(fcp, fcp.devices[k]))


@pure
def can_ids(fcp: "ref:FcpV2") -> "seq[dyn]":
    return [i.fields.get("id") for i in fcp.impls if i.protocol == "can"]


@pure
def dup_can_id(fcp: "ref:FcpV2", i: "ref:Impl") -> "bool":
    """a CAN binding whose frame id is used by another CAN binding"""
    return i.protocol == "can" and (not is_none(i.fields.get("id"))) and count(can_ids(fcp), i.fields.get("id")) > 1


@pure
def unknown_struct(fcp: "ref:FcpV2", i: "ref:Impl") -> "bool":
    return not has_struct(fcp, i.type)


# ---------------------------------------------------------------- node lists and the defunctionalised checks
@pure
def pair_lists(fcp: "ref:FcpV2") -> "seq[seq[tuple[ref,ref]]]":
    return [[(s, f) for f in s.fields] for s in fcp.structs]


@pure
def field_nodes(fcp: "ref:FcpV2") -> "seq[tuple[ref,ref]]":
    """all (struct, field) pairs, struct by struct, fields in declaration order"""
    return flat_pairs(pair_lists(fcp), len(fcp.structs))


@pure
def fields_ok(fcp: "ref:FcpV2", n: "int") -> "bool":
    """no struct among the first n has two fields with the same name (the clause of the statement)"""
    return forall(0, n, lambda a: forall(0, len(fcp.structs[a].fields),
                                         lambda b: not dup_field(fcp.structs[a], fcp.structs[a].fields[b])))


@pure
def flat_ok(fcp: "ref:FcpV2", n: "int") -> "bool":
    """the same clause read off the flattened (struct, field) list of the first n structs"""
    return forall(0, len(flat_pairs(pair_lists(fcp), n)),
                  lambda i: not dup_field(flat_pairs(pair_lists(fcp), n)[i][0], flat_pairs(pair_lists(fcp), n)[i][1]))


@pure
def known_category(c: "str") -> "bool":
    return (c == "struct" or c == "enum" or c == "impl" or c == "field" or c == "signal_block" or c == "type"
            or c == "service" or c == "device")


@pure
def signal_block_nodes(fcp: "ref:FcpV2") -> "seq[ref:SignalBlock]":
    """all signal blocks, binding by binding"""
    return flat_refs([i.signals for i in fcp.impls], len(fcp.impls))


@pure
def nodes(fcp: "ref:FcpV2", c: "str") -> "any":
    return ite(c == "struct", fcp.structs, ite(c == "enum", fcp.enums, ite(c == "impl", fcp.impls, ite(
        c == "field", field_nodes(fcp), ite(c == "signal_block", signal_block_nodes(fcp), ite(
            c == "type", fcp.structs + fcp.enums, ite(c == "service", fcp.services, fcp.devices)))))))


@pure
def check_rejects(name: "str", fcp: "ref:FcpV2", n: "ref") -> "bool":
    """the rejection predicate of the check called `name` on node n (one clause of the statement per check)"""
    return ite(name == "check_duplicate_typenames", dup_typename(fcp, n), ite(
        name == "check_duplicate_impl", dup_impl(fcp, n), ite(
            name == "check_duplicate_struct_fields", dup_field(as_field_node(n).struct, as_field_node(n).field), ite(
                name == "check_struct_contains_struct_fields", empty_struct(n), ite(
                    name == "check_enum_duplicate_enumerations_names", dup_enumerator_name(n), ite(
                        name == "check_enum_duplicate_enumerations_values", dup_enumerator_value(n), ite(
                            name == "check_device_contains_services", missing_service(fcp), ite(
                                name == "check_impl_valid_type", unknown_struct(fcp, n), ite(
                                    name == "check_duplicate_can_ids", dup_can_id(fcp, n), False)))))))))


@pure
def as_field_node(n: "ref") -> "ref:FieldNode":
    return n


@pure
def wf_general(fcp: "ref:FcpV2") -> "bool":
    """C09, general rules: the six clauses of the statement"""
    return (forall(0, len(fcp.structs + fcp.enums), lambda i: not dup_typename(fcp, (fcp.structs + fcp.enums)[i]))
            and forall(0, len(fcp.impls), lambda i: not dup_impl(fcp, fcp.impls[i]))
            and fields_ok(fcp, len(fcp.structs))
            and forall(0, len(fcp.structs), lambda i: not empty_struct(fcp.structs[i]))
            and forall(0, len(fcp.enums), lambda i: not dup_enumerator_name(fcp.enums[i]) and not dup_enumerator_value(fcp.enums[i]))
            and (len(fcp.devices) == 0 or not missing_service(fcp)))


@pure
def wf_dbc(fcp: "ref:FcpV2") -> "bool":
    """DBC plug-in rules: no binding to an unknown struct, no two CAN bindings with the same frame id"""
    return forall(0, len(fcp.impls), lambda i: not unknown_struct(fcp, fcp.impls[i]) and not dup_can_id(fcp, fcp.impls[i]))


@pure
def is_file(r: "ref:GenResult") -> "bool":
    return (not is_none(r.get("type"))) and r.get("type") == "file"


# ---------------------------------------------------------------- C10 vocabulary
def plugin_results(fcp: "ref") -> "seq[ref:GenResult]":
    """abstract: the list of result records the plug-in's generate() returns for this schema"""
    ...


def files_of(rs: "seq[ref:GenResult]", k: "int") -> "seq[ref]":
    """the records of type 'file' among the first k, in order"""
    if k <= 0:
        return seq_empty("ref")
    return files_of(rs, k - 1) + ([rs[k - 1]] if is_file(rs[k - 1]) else [])


