import sys, json, time
from pv import verify
eng = verify.load_all()
targets = sys.argv[1:]
for t in targets:
    t0 = time.time()
    rep = eng.verify(t)
    rep = verify.discharge(eng, rep)
    print(t, "paths", rep["paths"], "exits", rep["exits"], "canary", rep["canary"], "queries", rep.get("queries"), "wall %.2f" % (time.time() - t0))
    for u in rep["undecided"]: print("   UNDECIDED:", u)
    if rep["error"]: print("   ERROR:", rep["error"])
    for n, o in rep["obligations"].items():
        print("   %-70s %-8s q=%d t=%.2f" % (n, o["verdict"], o["queries"], o["solver_s"]))
        if o["verdict"] != "proved": print("      ", json.dumps(o["detail"])[:1500])
