#!/usr/bin/env python3
"""Run the registered checks against every stored seeded change (seeded/<id>/patch.diff) and record what happened.

usage: tools/seedsweep.py [--repo DIR] [--verif DIR] [ids...]
The change is applied with `git -C <repo> apply`, the checks named in meta.json["checked_with"] are run, and the change is
undone with `git -C <repo> checkout -- .` straight afterwards.  Nothing is ever committed to the repository.
Writes seeded/<id>/result.json (in --verif); tools/seedtable.py prints the table."""
import json, os, subprocess, sys, time, re

args = sys.argv[1:]
repo, verif = "/repo", os.path.dirname(os.path.dirname(os.path.abspath(__file__)))
while args and args[0].startswith("--"):
    k = args.pop(0)
    if k == "--repo":
        repo = args.pop(0)
    elif k == "--verif":
        verif = args.pop(0)
ids = args or sorted(d for d in os.listdir(os.path.join(verif, "seeded")) if os.path.isdir(os.path.join(verif, "seeded", d)))


def sh(cmd, **kw):
    return subprocess.run(cmd, shell=True, capture_output=True, text=True, **kw)


def clean():
    sh(f"git -C {repo} checkout -q -- .")
    return sh(f"git -C {repo} status --short").stdout.strip() == ""


rows = []
for sid in ids:
    d = os.path.join(verif, "seeded", sid)
    meta = json.load(open(os.path.join(d, "meta.json")))
    checks = re.findall(r"vcheck (C\d\d)", meta.get("checked_with", "")) or [sid.split("_")[0]]
    assert clean(), "repository not clean"
    a = sh(f"git -C {repo} apply {os.path.join(d, 'patch.diff')}")
    if a.returncode != 0:
        rows.append((sid, "patch does not apply", ""))
        continue
    res = {}
    try:
        for c in checks:
            t0 = time.time()
            env = dict(os.environ, VERIF_REPO=repo)
            p = subprocess.run(["./vcheck", c], cwd=verif, capture_output=True, text=True, env=env)
            lines = [l for l in p.stdout.split("\n") if re.match(r"VIOLATION|UNDECIDED|CHECKER", l)]
            res[c] = {"exit": p.returncode, "lines": [l[:300] for l in lines[:6]], "wall_s": round(time.time() - t0, 1),
                      "concrete_input": any(l.startswith("VIOLATION") and not l.rstrip().endswith("no-failing-input-found") for l in lines)}
    finally:
        clean()
        sh(f"rm -rf {os.path.join(verif, 'replays')}/C*")
    json.dump(res, open(os.path.join(d, "result.json"), "w"), indent=1)
    verdict = ("caught" if any(r["exit"] == 1 for r in res.values()) else
               ("undecided" if any(r["exit"] == 2 for r in res.values()) else "MISSED"))
    rows.append((sid, verdict, ", ".join(f"{c}: exit {r['exit']}" + (" (failing input replayed)" if r["concrete_input"] else "") for c, r in res.items())))
    print(rows[-1], flush=True)
# the table is produced from the result.json files by tools/seedtable.py
sh(f"git -C {verif} checkout -- evidence")
