#!/usr/bin/env python3
"""Markdown table of the seeded changes and what the checks said about them (from seeded/<id>/meta.json and result.json)."""
import json, os, sys
verif = os.path.dirname(os.path.dirname(os.path.abspath(__file__)))
rows = []
for sid in sorted(os.listdir(os.path.join(verif, "seeded"))):
    d = os.path.join(verif, "seeded", sid)
    if not os.path.isdir(d):
        continue
    m = json.load(open(os.path.join(d, "meta.json")))
    rp = os.path.join(d, "result.json")
    res = json.load(open(rp)) if os.path.exists(rp) else {}
    files = ", ".join(os.path.basename(f) for f in (m.get("files_changed") or []))
    need = (m.get("needs_to_manifest") or "").strip().split(". ")[0][:170]
    if not res:
        out = "not swept"
    elif any(r["exit"] == 1 for r in res.values()):
        cs = [c for c, r in res.items() if r["exit"] == 1]
        out = "**caught** by " + ", ".join(c + (" (failing input replayed)" if res[c].get("concrete_input") else " (obligation, no input)") for c in cs)
    elif any(r["exit"] == 2 for r in res.values()):
        out = "undecided (exit 2): " + "; ".join(sorted({l.split("reason=")[-1][:80] for r in res.values() for l in r["lines"] if "UNDECIDED" in l}))[:200]
    else:
        out = "MISSED (exit 0)"
    rows.append(f"| {sid} | {files} | {need} | {out} |")
print("| seeded change | file(s) | needs | outcome of the registered checks |\n|---|---|---|---|")
print("\n".join(rows))
