#!/usr/bin/env python3
"""Regenerates MANIFEST.json from the claim table below (kept valid at every commit)."""
import json, os
HERE = os.path.dirname(os.path.dirname(os.path.abspath(__file__)))
props = [json.loads(l) for l in open(os.path.join(HERE, "properties.jsonl"))]

CLAIMS = json.load(open(os.path.join(HERE, "tools", "claims.json")))
NA = json.load(open(os.path.join(HERE, "tools", "not_applicable.json")))

checks = []
for pid, c in CLAIMS.items():
    checks.append({
        "property_id": pid,
        "quick_cmd": f"./vcheck {pid} --tier quick",
        "thorough_cmd": f"./vcheck {pid} --tier thorough",
        "evidence_file": f"evidence/{pid}.json",
        "replay_cmd_template": "./vcheck replay {path}",
        "engine": c.get("engine", "pyvc"),
        "level_claimed": {"category": "proof", "text": c["text"], "design_ref": c.get("design_ref", "DESIGN.md section 4")},
        "level_note": c["note"],
        "technique": c.get("technique", "contract-based deductive verification: sidecar contracts on the real functions, VCs generated from the "
                                        "Python AST by PyVC, discharged by z3/cvc5"),
    })
na = [{"property_id": p["id"], "reason": NA[p["id"]]} for p in props if p["id"] not in CLAIMS]
m = {
    "version": 1,
    "setup_cmd": "python3-vt -c 'import z3; print(z3.get_version_string())'",
    "hooks": {"guard": "FCP_CORE_VERIF", "enable": "no source hooks: contracts are sidecar files under /verif/contracts keyed by module:qualname; "
              "nothing in /repo is instrumented", "baseline_off_cmd": "cd /repo && /venv/bin/python -m pytest -ra -q -p no:cacheprovider --timeout=900 "
              "--continue-on-collection-errors", "source_commits": [], "add_only": True},
    "engines": [{"name": "pyvc", "path": "pv/", "serves_properties": sorted(CLAIMS),
                 "kind_free_text": "verification-condition generator for a Python subset (symbolic execution of the real AST against sidecar "
                                   "contracts, loop invariants, modular calls), z3 5.1 / z3 4.8.12 / cvc5 as back ends"}],
    "checks": checks,
    "notes": "Exit codes of ./vcheck: 0 held, 1 VIOLATION, 2 UNDECIDED (solver unknown / code left the supported subset), 3 checker error. "
             "Genuine defects repaired in /repo are `fix:` commits listed in known_findings.json under `fixed`.",
    "not_applicable": na,
}
json.dump(m, open(os.path.join(HERE, "MANIFEST.json"), "w"), indent=1)
print("claimed:", sorted(CLAIMS), "not applicable:", [x["property_id"] for x in na])
