#!/bin/bash
# Engine self-test: each mutation of a scratch worktree of the repository must make the named function's proof fail
# (bad >= 1 or UNDECIDED).  Nothing is committed; the worktree is removed at the end.
# usage: tools/selftest.sh          (takes about 10 minutes)
set -u
VERIF=$(cd "$(dirname "$0")/.." && pwd)
WT=$(mktemp -d /tmp/selftest_XXXX); rmdir "$WT"
git -C /repo worktree add -q --detach "$WT" HEAD || exit 3
trap 'git -C /repo worktree remove --force "$WT" >/dev/null 2>&1' EXIT
cd "$VERIF"; export VERIF_REPO="$WT"
run() { # file sed-expr target
  git -C "$WT" checkout -q -- .
  sed -i "$2" "$WT/$1"
  if git -C "$WT" diff --quiet; then echo "NOCHANGE $1 $2"; return; fi
  out=$(timeout 1200 python3-vt - "$3" <<'PY' 2>&1 | tail -2
import sys, json
from pv import run, plans
for r in run.run_targets([sys.argv[1]], slow=plans.SLOW):
    bad = [n for n, o in r["obligations"].items() if o["verdict"] != "proved"]
    print("bad=%d undecided=%d" % (len(bad), len(r.get("undecided", []))), (bad + r.get("undecided", []))[:1])
PY
)
  echo "[$3] $2 => $out"
}
run src/fcp/serde.py 's/for field in sorted(struct.fields, key=lambda field: field.field_id):/for field in struct.fields:/' fcp.serde:_encode_struct
run src/fcp/serde.py 's/    for i in range(len):/    for i in range(len - 0 if len < 4000000000 else 0):/' fcp.serde:_decode_dynamic_array
run src/fcp/encoding.py 's/self.bitstart += type_length/self.bitstart += type_length + 0 * 1 if type_length != 13 else 14/' fcp.encoding:PackedEncoder._generate_signal
run src/fcp/verifier.py 's/if signal_names.count(left_signal.name) > 1:/if signal_names.count(left_signal.name) > 2:/' fcp.verifier:make_general_verifier.check_duplicate_struct_fields
run src/fcp/specs/v2.py 's/        self.services += fcp.services/        self.services = fcp.services + self.services/' fcp.specs.v2:FcpV2.merge
run plugins/fcp_dbc/fcp_dbc/dbc_writer.py 's/dlc = ceil((piece.bitstart + piece.bitlength) \/ 8)/dlc = (piece.bitstart + piece.bitlength) \/\/ 8/' fcp_dbc.dbc_writer:_make_signals
run plugins/fcp_dbc/fcp_dbc/dbc_writer.py 's/                name=impl.name,/                name=impl.type,/' fcp_dbc.dbc_writer:write_dbc
run src/fcp/specs/struct.py 's/"name": self.name,/"name": self.name.strip(),/' fcp.specs.struct:Struct.reflection
run src/fcp/codegen.py 's/    path.parent.mkdir(exist_ok=True)/    pass/' fcp.codegen:_handle_file
run plugins/fcp_can_c/fcp_can_c/generator.py 's/            if size > 64:/            if size >= 64:/' fcp_can_c.generator:Generator.register_checks.check_impl_size
run plugins/fcp_can_c/fcp_can_c/can_c_writer.py '/    x |= x >> 2$/d' fcp_can_c.can_c_writer:ceil_to_power_of_2
run plugins/fcp_dbc/fcp_dbc/generator.py 's/"bus": bus,/"bus": content,/' fcp_dbc.generator:Generator.generate
run plugins/fcp_dbc/fcp_dbc/generator.py 's/for bus, content in write_dbc(fcp).unwrap()/for bus, content in write_dbc(fcp).unwrap()[1:]/' fcp_dbc.generator:Generator.generate
run src/fcp/parser.py 's/    logger.add_source(str(filename), source)/    logger.add_source(str(filename.resolve()), source)/' fcp.parser:_get_fcp
