"""Path state, chooser (replay-based path exploration), control signals."""
from __future__ import annotations
import z3, hashlib
from typing import Any, Dict, List, Optional
from .values import *
from .smt import T, fresh


class PathEnd(Exception):
    """The current path is finished (after a loop-body check, or after an exit that was handled)."""


class Infeasible(Exception):
    pass


class PyRaise(Exception):
    def __init__(self, exc: ExcVal):
        self.exc = exc


class ReturnSig(Exception):
    def __init__(self, value):
        self.value = value


class BreakSig(Exception):
    pass


class ContinueSig(Exception):
    pass


class Chooser:
    def __init__(self, prefix):
        self.prefix, self.pos, self.trace, self.alts = list(prefix), 0, [], []

    def choose(self, n: int, label: str = "") -> int:
        if n <= 1:
            return 0
        if self.pos < len(self.prefix):
            c, lab = self.prefix[self.pos]
            if lab != label:
                raise RuntimeError(f"replay divergence: expected choice {lab!r}, got {label!r}")
        else:
            c = 0
            for k in range(1, n):
                self.alts.append(self.trace + [(k, label)])
        self.trace.append((c, label))
        self.pos += 1
        return c


class Frame:
    def __init__(self, env, module, qualname):
        self.env, self.module, self.qualname = env, module, qualname
        self.loop_ordinal = 0


class Obligation:
    def __init__(self, name, hyps, goal, kind, meta=None):
        self.name, self.hyps, self.goal, self.kind, self.meta = name, hyps, goal, kind, meta or {}


class State:
    def __init__(self, chooser: Chooser):
        self.ch = chooser
        self.frames: List[Frame] = []
        self.heap: Dict[int, HeapObj] = {}
        self.next_id = 1
        self.pc: List[z3.BoolRef] = []
        self.axioms: List[z3.BoolRef] = []
        self.obligations: List[Obligation] = []
        self.old_heap: Optional[Dict[int, HeapObj]] = None
        self.old_env: Optional[dict] = None
        self.spec = 0                 # >0 : evaluating a contract / spec expression
        self.bound: List[z3.ExprRef] = []  # bound variables of enclosing quantifiers
        self.fuel = 1
        self.fresh_n = 0
        self.notes: List[str] = []
        self.result = None
        self.exc = None
        self.trail: List[str] = []    # human-readable path description
        self.frozen: Dict[int, Any] = {}
        self.index_terms: List[z3.ExprRef] = []
        self.ghost: Dict[str, Any] = {}
        self.fn_old_heap = None

    # ----- fresh symbols: deterministic per path prefix
    def fresh(self, name, sort):
        self.fresh_n += 1
        return z3.Const(f"{name}!{self.fresh_n}", sort)

    def alloc(self, obj: HeapObj) -> HeapRef:
        i = self.next_id
        self.next_id += 1
        self.heap[i] = obj
        return HeapRef(i)

    def obj(self, ref: HeapRef) -> HeapObj:
        return self.heap[ref.id]

    @property
    def frame(self) -> Frame:
        return self.frames[-1]

    def assume(self, f):
        if isinstance(f, bool):
            f = z3.BoolVal(f)
        if z3.is_and(f):
            for c in f.children():      # conjuncts separately: quantifier-free ones stay usable for cheap feasibility checks
                self.assume(c)
            return
        self.pc.append(f)

    def hyps(self):
        return list(self.axioms) + list(self.pc)

    def snapshot_heap(self):
        return {i: o.clone() for i, o in self.heap.items()}
