"""Proof plans: which functions (contracts), lemmas and theorems make up the cone of each property."""

BUFFER = ["fcp.serde:_Buffer.set_bit", "fcp.serde:_Buffer.get_bit", "fcp.serde:_Buffer.push_word", "fcp.serde:_Buffer.read_word",
          "fcp.serde:_Buffer.get_buffer"]
LOOKUPS = ["fcp.specs.v2:FcpV2.get_struct", "fcp.specs.v2:FcpV2.get_enum", "fcp.specs.type:NumericType.get_length",
           "fcp.specs.enum:Enum.get_packed_size"]
ENCODERS = ["fcp.serde:_encode_builtin_unsigned", "fcp.serde:_encode_builtin_signed", "fcp.serde:_encode_builtin_float",
            "fcp.serde:_encode_builtin_double", "fcp.serde:_encode_enum", "fcp.serde:_encode_str", "fcp.serde:_encode_struct",
            "fcp.serde:_encode_array", "fcp.serde:_encode_dynamic_array", "fcp.serde:_encode_optional", "fcp.serde:_encode",
            "fcp.serde:encode"]
DECODERS = ["fcp.serde:_decode_builtin_unsigned", "fcp.serde:_decode_builtin_signed", "fcp.serde:_decode_builtin_float",
            "fcp.serde:_decode_builtin_double", "fcp.serde:_decode_enum", "fcp.serde:_decode_str", "fcp.serde:_decode_struct",
            "fcp.serde:_decode_array", "fcp.serde:_decode_dynamic_array", "fcp.serde:_decode_optional", "fcp.serde:_decode"]
BIT_LEMMAS = ["lemmas:word_bits_len", "lemmas:wire_chars_len", "lemmas:max_is_enum_max", "fcp.specs.enum:Enum.max"]
DECODERS_PROVED = DECODERS + ["fcp.serde:_Buffer.push_bytes", "fcp.serde:decode"]
RT_LEMMAS = ["lemmas:mod_step", "lemmas:mod_range", "lemmas:val_of_word_bits", "lemmas:chars_split", "lemmas:elems_split",
             "lemmas:fields_split", "lemmas:rt_str", "lemmas:rt_elems", "lemmas:rt_struct", "lemmas:seq_assoc", "lemmas:wire_dyn_shape",
             "lemmas:rt_dyn_count", "lemmas:rt_dyn", "lemmas:rt", "lemmas:unpack_len", "lemmas:unpack_allbits", "lemmas:byte_expand", "lemmas:unpack_byte",
             "lemmas:unpack_facts", "lemmas:unpack_rep", "lemmas:rep_bytes_ok", "lemmas:bit_eq", "lemmas:rep_unpack"]
REFLECTION = ["fcp.specs.type:NumericType.reflection", "fcp.specs.type:StringType.reflection", "fcp.specs.type:EnumType.reflection",
              "fcp.specs.type:StructType.reflection", "fcp.specs.type:ArrayType.reflection", "fcp.specs.type:DynamicArrayType.reflection",
              "fcp.specs.type:OptionalType.reflection", "fcp.specs.metadata:MetaData.reflection",
              "fcp.specs.struct_field:StructField.reflection", "fcp.specs.enum:Enumeration.reflection",
              "fcp.specs.signal_block:SignalBlock.reflection", "fcp.specs.impl:Impl.reflection",
              "fcp.specs.struct:Struct.reflection", "fcp.specs.enum:Enum.reflection", "fcp.specs.method:Method.reflection",
              "fcp.specs.service:Service.reflection", "fcp.specs.v2:encode_version", "fcp.specs.v2:FcpV2.reflection"]

CODEC_TRUSTED = [
    "CPython int semantics as encoded by PyVC (mathematical integers, floor division, shifts as *2^k and div 2^k)",
    "prelude fact: x | (m << k) == x + m*2^k when 0 <= x < 2^k, m >= 0 (disjoint bits)",
    "extensionality of sequences w.r.t. the indexing symbol nth.int; definition of indexing over concatenation (ground instances)",
    "struct.pack/unpack implement IEEE-754 binary32/binary64 images (assumed contracts ext:struct.pack / ext:struct.unpack)",
    "builtin sorted(xs, key=lambda f: f.field_id) is one fixed function of xs (same term in code and spec)",
    "z3 5.1.0 and the VC generator itself (mitigated by the seeded-mutant runs recorded in DESIGN.md)",
]

GEN_CHECKS = ["fcp.verifier:make_general_verifier." + n for n in (
    "check_duplicate_typenames", "check_duplicate_impl", "check_duplicate_struct_fields", "check_struct_contains_struct_fields",
    "check_enum_duplicate_enumerations_names", "check_enum_duplicate_enumerations_values", "check_device_contains_services")]
TRUNC_LEMMAS = ["lemmas:val_prefix", "lemmas:loc_str", "lemmas:loc_elems", "lemmas:loc_struct", "lemmas:loc", "lemmas:val_prefix_if",
                "lemmas:loc_if", "lemmas:unpack_same", "lemmas:unpack_mono"]
PLUGIN_CHECKS = ["fcp_dbc.generator:Generator.register_checks.check_impl_valid_type",
                 "fcp_dbc.generator:Generator.register_checks.check_duplicate_can_ids",
                 "fcp_can_c.generator:Generator.register_checks.check_impl_valid_type"]

ENCODING = ["fcp.encoding:PackedEncoder._get_type_length", "fcp.encoding:PackedEncoder._generate_signal",
            "fcp.encoding:PackedEncoder._generate_struct", "fcp.encoding:PackedEncoder._generate_array_type",
            "fcp.encoding:PackedEncoder._generate_compound_type", "fcp.encoding:PackedEncoder._generate",
            "fcp.encoding:PackedEncoder.generate", "fcp.specs.impl:Impl.get_signal", "fcp.specs.v2:FcpV2.get_type",
            "fcp.specs.v2:FcpV2.get_struct", "fcp.specs.v2:FcpV2.get_enum", "fcp.specs.enum:Enum.get_packed_size",
            "fcp.specs.type:NumericType.get_length", "fcp.specs.enum:Enum.max", "lemmas:max_is_enum_max"]

# per-function solver budgets (ms) above the tier default: sized so that the verdict does not flip on a loaded machine
SLOW = {"fcp.serde:_decode": 120000, "lemmas:val_of_word_bits": 60000, "lemmas:unpack_facts": 30000, "lemmas:flat_at": 30000, "lemmas:unpack_byte": 60000, "lemmas:bit_eq": 30000, "lemmas:rt_dyn": 30000, "lemmas:rt": 60000, "theorems:C01_roundtrip": 60000, "theorems:C09_general": 60000, "theorems:C09_dbc": 60000, "lemmas:flat_all_2": 30000, "lemmas:flat_all_1": 30000, "lemmas:loc": 60000, "lemmas:loc_struct": 30000, "lemmas:loc_elems": 30000, "lemmas:loc_str": 30000, "lemmas:rt_str": 30000, "fcp.serde:_decode_struct": 60000, "fcp.serde:_decode_str": 30000, "fcp.serde:decode": 30000, "fcp.serde:_encode": 30000,
        "fcp.serde:_decode_dynamic_array": 30000, "fcp.serde:_encode_struct": 60000}

PLANS = {
    "C04": {
        "targets": ENCODING,
        "native": "layout",
        "trusted": [
            "builtin sorted(xs, key=field_id) is one fixed function of xs (same term in code and spec); copy.copy is a shallow copy",
            "typing invariant of the schema classes (pyserde strict type checks): list fields hold objects of the declared class",
            "assumed contract Enum.max (builtin max/map); termination of the recursion over nested structs (declared-earlier order, C08)",
            "uniqueness of the hierarchical names is NOT proved (known finding KF-F9: an unrolled array x next to a field x_0)",
        ],
        "explanation": "representation invariants tiled(encoding, cursor, names) and leafy(fcp, encoding, unroll) (every piece of the result is a "
                       "scalar leaf whose bit length is the wire width of its type - stated for ALL pieces of generate()'s result, not only for the "
                       "piece just appended): first piece at bit 0, each piece starts where the previous ends, "
                       "cursor at the end; every member of PackedEncoder preserves it; a leaf gets exactly type_width bits (= wire width), the "
                       "options of the signal block named like the field and of no other; names follow struct_names(...) over "
                       "sorted-by-field-id fields; generate() resets the state so its result is a function of (schema, binding, context)",
    },
    "C05": {
        "targets": ["fcp_dbc.dbc_writer:_make_signals", "fcp.specs.v2:FcpV2.get_matching_impls", "fcp_dbc.dbc_writer:write_dbc",
                    "fcp_dbc.generator:Generator.generate"] + ENCODING,
        "native": "dbc",
        "trusted": [
            "ASSUMED (not proved): cantools Signal/Message objects and Database.as_dbc_string carry exactly the constructor arguments, and an "
            "independent DBC reader recovers them (assumed contracts ext:cantools...Signal, ...BaseConversion.factory)",
            "write_dbc IS under contract (per-bus grouping in order of first use, frame id, message name, signal count; collections.defaultdict is "
            "modelled as insertion-ordered keys + one str->list map per record field); the signal-level facts of each message are _make_signals' "
            "postcondition, composed per message on paper; fcp_dbc Generator.generate IS under contract (one `file` record per bus text of "
            "write_dbc, same order, same bus name, text unchanged; the record's path is an opaque pathlib value about which nothing is claimed; "
            "ctx.get is assumed effect-free)",
            "math.ceil(x / 8) on exact rationals; str.replace is one fixed function (same term in code and spec)",
        ],
        "explanation": "the repo-side half of the statement: _make_signals maps layout piece i to a signal with the piece's position (+7 for "
                       "non-little-endian), width, byte order, signedness, float marking, unit and multiplexing, dlc == ceil(bits/8), and raises iff "
                       "the message exceeds 64 bits; the layout itself is C04's cone (included)",
    },
    "C14": {
        "targets": ["fcp_dbc.dbc_writer:_make_signals", "fcp.encoding:PackedEncoder._get_type_length", "fcp.encoding:PackedEncoder._generate_signal",
                    "fcp.encoding:PackedEncoder._generate_struct", "fcp.encoding:PackedEncoder._generate_array_type",
                    "fcp.encoding:PackedEncoder._generate_compound_type", "fcp.encoding:PackedEncoder._generate",
                    "fcp.encoding:PackedEncoder.generate", "fcp.specs.v2:FcpV2.get_matching_impls", "fcp_dbc.dbc_writer:write_dbc",
                    "fcp.specs.type:Type.get_length", "fcp.specs.type:ArrayType.get_length", "fcp.specs.type:DynamicArrayType.get_length",
                    "fcp.specs.type:OptionalType.get_length", "fcp.specs.type:NumericType.get_length", "lemmas:sum_pointwise",
                    "fcp_can_c.generator:Generator.register_checks.check_impl_size",
                    "fcp.codegen:GeneratorManager.generate", "fcp.codegen:CodeGenerator.gen",
                    "fcp_dbc.generator:Generator.generate"],
        "native": "dbc",
        "trusted": [
            "fcp_dbc Generator.generate is under contract: it returns records only if write_dbc returned Ok, i.e. only if every CAN binding "
            "fits (postcondition impl_fits for every binding); otherwise it raises",
            "the C plug-in's check_impl_size is under contract for structs whose fields are numeric or arrays of numerics (precondition); "
            "outside it get_length() raises instead of returning an error (known finding KF-F16), and the rule measures the declared "
            "widths of the struct's own fields, not the packed layout of a binding",
            "write_dbc's precondition: every CAN binding names a well-formed struct with at least one leaf (the general verifier's checks, C09)",
            "as C04, C05, C10",
        ],
        "explanation": "corollary of contracts: _get_type_length raises ValueError exactly for types without a static packed size and the raise "
                       "propagates through every recursive member of PackedEncoder (no_raise_if clauses), so generate(impl) raises for any struct "
                       "containing a string / dynamic array / optional at any depth (must_raise_if clauses on every member: raising is proved, "
                       "not only allowed); _make_signals raises iff the message exceeds 64 bits; write_dbc is proved to return Ok only if every CAN "
                       "binding has a static packed size and an id (neither exception is swallowed: a path that continues after a ValueError fails "
                       "the loop invariant); the tiling invariant excludes overlaps and signals beyond the message; by C10's gating contract "
                       "nothing is written when generation fails; the C plug-in's check_impl_size returns Err exactly when the declared "
                       "widths of the struct's fields (sum() over a comprehension of dynamically dispatched get_length() calls: every callee "
                       "precondition is an obligation per element, builtin sum = recursive sum + induction lemma) exceed 64 bits",
    },
    "C11": {
        "targets": ["fcp.parser:_get_fcp", "fcp.parser:get_fcp_from_string", "fcp.parser:FcpV2Transformer.mod_expr", "fcp.error:Logger.add_source"],
        "native": "parse",
        "trusted": [
            "ASSUMED raise sets of lark 1.3.1: Lark.parse raises only UnexpectedCharacters/UnexpectedEOF and terminates; Transformer.transform "
            "wraps every callback exception into VisitError",
            "assumed no-raise contracts: FcpV2Transformer.__init__, Logger.log_lark, the filesystem proxy read of the root file "
            "(Logger.add_source is proved: one dict store)",
            "Logger.error (rendering, cited line exists) is NOT under contract; only the native replay exercises it",
        ],
        "explanation": "exceptional postconditions: on every path of _get_fcp the assumed lark exceptions are caught and turned into error "
                       "values, the only exception that leaves is the attempt() of an Err, and the real @catch of get_fcp_from_string converts "
                       "that; get_fcp_from_string has no raises clause, so any escaping exception is a failed obligation",
    },
    "C08": {
        "targets": ["fcp.parser:FcpV2Transformer.composed_type", "fcp.specs.v2:FcpV2.get_struct", "fcp.specs.v2:FcpV2.get_enum",
                    "fcp.specs.v2:FcpV2.get_type", "fcp.specs.v2:FcpV2.merge"],
        "native": "parse",
        "trusted": [
            "ASSUMED: lark calls the callbacks bottom-up, children left to right, each once (so `collected so far` means `declared earlier in the text`)",
            "the propagation of an Err through array/optional/struct_field/struct/start callbacks (results_in chaining) is not under contract",
        ],
        "explanation": "composed_type is proved to return Ok(StructType(n)) iff a struct named n is among the structs collected so far, else "
                       "Ok(EnumType(n)) iff an enum is, else an Err whose first message contains n; the look-ups get_struct/get_enum/get_type are "
                       "proved to return the first declaration of that name (structs before enums); merge is proved to append, so references "
                       "resolved before an import still resolve after it",
    },
    "C20": {
        "targets": ["fcp.specs.v2:FcpV2.merge", "fcp.specs.v2:FcpV2.get_struct", "fcp.specs.v2:FcpV2.get_enum",
                    "fcp.parser:FcpV2Transformer.composed_type", "fcp.parser:FcpV2Transformer.mod_expr"],
        "native": "parse",
        "trusted": [
            "mod_expr is under contract for its structure (read, parse, nested transform, merge; every failure becomes an Err and leaves the "
            "schema untouched); that the path is resolved relative to the importing file and that the error text names the module rest on "
            "pathlib and are only exercised by the native replay",
            "assumed: lark raise sets, `with open(p) as f: f.read()` returns the file text or raises FileNotFoundError",
        ],
        "explanation": "merge(other) is proved to append other's structs, enums, impls, services and devices, in order, to the importing schema "
                       "and to change nothing else: importing a module at the point of first need therefore yields the same five lists as "
                       "declaring its contents at that point",
    },
    "C10": {
        "targets": ["fcp.codegen:_handle_file", "fcp.codegen:_handle_print", "fcp.codegen:handle_result", "fcp.codegen:CodeGenerator.gen",
                    "fcp.codegen:GeneratorManager.generate"],
        "native": "gating",
        "trusted": [
            "assumed contracts: Verifier.verify returns a Result (its verdict is C09), CodeGenerator.generate (plug-in) returns result records, "
            "_get_generator/_get_templates/_get_skels write nothing under the output directory",
            "calls on values the engine knows nothing about (Path objects, plug-in objects, logging) are recorded in a per-path effect log; "
            "only the recorded calls can touch the file system",
            "real @catch/.attempt() code from fcp/maybe.py, fcp/result.py is symbolically executed, not axiomatised",
        ],
        "explanation": "effect contracts: on every path of GeneratorManager.generate, gen() is called iff verify() returned Ok, after it, and an Err "
                       "verdict is returned unchanged with no further call; gen() hands exactly the plug-in's records of type 'file' to _handle_file, "
                       "which performs mkdir(parent) then write_text(str(contents)) and nothing else",
    },
    "C09": {
        "targets": GEN_CHECKS + PLUGIN_CHECKS + ["fcp.specs.v2:FcpV2.get_struct", "lemmas:flat_len", "lemmas:flat_at", "lemmas:flat_all_1",
                                                 "lemmas:flat_all_2", "theorems:C09_general", "theorems:C09_dbc"],
        "native": "wf",
        "trusted": [
            "builtin model: [x for xs in xss for x in xs] is the recursive concatenation flat_pairs/flat_refs of spec/builtins.py; a "
            "(struct, field) tuple handed to a check is an object whose two modelled fields are the components (injection tup2ref)",
            "list.count / membership facts used: count(s,x) > 0 <-> x in s, 0 <= count <= len (prelude)",
            "list comprehension over a list is a function of the list (same term in code and spec)",
            "inspect.stack / getframeinfo / Path inside FcpError are opaque observers",
            "z3 5.1.0 and the VC generator",
        ],
        "explanation": "every registered check is proved to reject exactly its clause of the well-formedness spec; the theorems symbolically "
                       "execute the real make_general_verifier(), Generator.register_checks(), Verifier.verify/run_checks and the real @catch/"
                       ".attempt() plumbing and prove verdict == spec for all schemas; order independence follows because the spec is built from "
                       "count/membership only.  FcpV2.get and _flatten are executed from their real source inside the theorems (no "
                       "contract in between); the clause `no struct has two fields with the same name` is stated over structs and their "
                       "fields (fields_ok) and connected to the flattened (struct, field) list the verifier walks by the machine-checked "
                       "lemmas flat_at / flat_all_1 / flat_all_2 (induction over the struct list)",
    },
    "C12": {
        "targets": REFLECTION,
        "native": "reflect",
        "trusted": [
            "the serialisation half (the record conforms to the built-in reflection schema and round-trips through the codec) is NOT proved: "
            "it is the codec theorem C01 instantiated at the concrete reflection schema, which needs that schema as SMT facts",
            "str() of a non-string option value is an uninterpreted function py.str (identity on strings, decimal numeral on integers)",
            "dict.items() of an open options dict is an unknown list of (key, value) pairs, a function of the dict (declaration order is "
            "CPython's insertion order)",
            "the version string is the class default '3.0' (the parser never sets it); version_ok('3.0') is checked natively",
        ],
        "explanation": "faithfulness half of the statement, for every node kind: FcpV2.reflection() is proved to return a record r with "
                       "is_fcp_rec(r, fcp) (spec/reflect.py): exactly the keys tag/version/structs/enums/impls/services; one record per struct, "
                       "enum, binding and service in declaration order; per struct one record per field with name, id, flattened type chain "
                       "(type_chain, outermost first), unit, range and source position; per enum its enumerators; per binding its extension "
                       "fields and signal blocks as {name, str(value)} pairs; per service its methods.  Each reflection() method is verified "
                       "against the record predicate of its node kind; a comprehension that calls an element's reflection() is cut at that "
                       "element's contract (result = skolem function of the element, postcondition stated per index of the source list).",
    },
    "C15": {
        "targets": sorted(set(ENCODERS + ENCODING + ["fcp.serde:_decode_struct", "fcp.serde:_decode", "fcp_dbc.dbc_writer:_make_signals"]),
                          key=lambda t: (ENCODERS + ENCODING + ["fcp.serde:_decode_struct", "fcp.serde:_decode", "fcp_dbc.dbc_writer:_make_signals"]).index(t))
                   + ["lemmas:twin_fields", "lemmas:twin_elems", "lemmas:twin_wire", "lemmas:rep_unique", "theorems:C15_twin"],
        "native": "codec",
        "trusted": [
            "prelude fact: sorted(xs, key=field_id) depends only on the multiset of xs when ids are distinct (so two declaration orders of the "
            "same fields give the same sorted list) - not machine-proved",
            "for the Python codec the two-run statement IS a theorem (C15_twin: equal bytes from the real encode() under a schema and its "
            "twin, where twin(f1, f2) says: same struct names, same fields after sorting by id, same enums - the AST-level effect of "
            "permuting declarations); termination of the structural induction of the twin lemmas is trusted; for the packed layout / DBC "
            "the same step is read off the contracts (results mention the declaration order only through sorted_fields)",
            "DBC signal tables are a function of the layout (C05: _make_signals maps piece i to signal i); the generated C reads the same "
            "layout (C06); the C++ templates are not reachable (see C03)",
        ],
        "explanation": "the Python encoder, the Python decoder and every member of the packed layout (struct walk, array unrolling, compound "
                       "types) are proved to walk sorted(struct.fields, key=field_id): their results are wire_fields(sorted_fields(s), ...) / "
                       "starts_fields(sorted_fields(s), ...) / struct_names(sorted_fields(s), ...), which mention the declaration order only "
                       "through sorted_fields.  A change that walks struct.fields in another order anywhere in these cones fails the "
                       "function's own postcondition.",
    },
    "C16": {
        "targets": BUFFER + LOOKUPS + ENCODERS + BIT_LEMMAS + DECODERS_PROVED + RT_LEMMAS + TRUNC_LEMMAS + ["theorems:C16_prefix"],
        "native": "codec",
        "trusted": CODEC_TRUSTED + [
            "termination of the structural induction in the locality lemmas (as for the RT lemmas)",
            "known finding KF-F23: the element count of a dynamic array is bounded by the input length only when the element type occupies "
            "at least one bit (the obligation is restricted to min_wire(element) >= 1)",
            "known finding KF-F1 does not touch this property's clauses (it concerns the value returned for the signed minimum)",
        ],
        "explanation": "theorem C16_prefix (ghost client of the real encode() and decode()): for every well-formed schema, every conforming value v "
                       "and EVERY byte string d2 that is a strict prefix of encode(fcp, name, v), decode(fcp, name, d2) does not return.  It "
                       "rests on a must-raise clause carried by every decoder (ghost fb = the bits of the full input): a buffer that is a "
                       "prefix of an input holding the image of a conforming v at the cursor, and that ends before that image does, makes "
                       "the decoder raise - proved per decoder, with the recursive calls cut at the same clause, the locality lemma "
                       "(`starts` on the full input implies `starts` on any prefix that contains the image; structural induction) invoked "
                       "after each element/field has been read.  Independently, for every input at all: scalar decoders raise iff their "
                       "field extends past the input; a normal return has consumed at least min_wire(type) bits, all inside the input "
                       "(no value is built from bits that are not there); decode() returns only if the input is at least as long as the "
                       "minimal image; a dynamic array decoder returns at most as many elements as there are input bits.",
    },
    "C01": {
        "targets": BUFFER + LOOKUPS + ENCODERS + BIT_LEMMAS + DECODERS_PROVED + RT_LEMMAS + ["theorems:C01_roundtrip"],
        "native": "codec",
        "trusted": CODEC_TRUSTED + [
            "the byte-packing lemmas (unpack_rep, rep_unpack: existence and uniqueness of binary expansion) are proved, not assumed",
            "termination of the structural induction in the RT lemmas and of the codec's recursion over types (struct references point to "
            "earlier declarations: C08)",
            "known finding KF-F1: the contract of _decode_builtin_signed is violated exactly at the signed minimum; the theorem is relative to it",
        ],
        "explanation": "theorem C01_roundtrip is a ghost client of the real encode() and decode(): for every well-formed schema and conforming "
                       "value, encode's contract gives the canonical packing of wire(v); lemma RT (structural induction over the type, proved "
                       "from the spec functions only) shows that wire(v) followed by the padding `starts` with v; decode's contract then "
                       "returns v. Every encoder/decoder between the theorem and the bit layer carries a contract strong enough to transport "
                       "it (modular: callers see contracts, not bodies)",
    },
    "C02": {
        "targets": BUFFER + LOOKUPS + ENCODERS + BIT_LEMMAS + DECODERS_PROVED + RT_LEMMAS,
        "native": "codec",
        "trusted": CODEC_TRUSTED,
        "explanation": "encode direction of the canonical wire format: every encoder is proved to append exactly wire(fcp,T,v) (spec/wire.py, "
                       "written from the statement) and encode() to return the canonical byte packing of it",
    },
}
