"""Parallel verification of a list of targets: one function per task, plain-data reports."""
from __future__ import annotations
import os, sys, time, json, traceback
from concurrent.futures import ProcessPoolExecutor, as_completed


def _work(args):
    target, timeout_ms, group = args
    t0 = time.time()
    try:
        from pv import verify
        eng = verify.load_all()
        eng.recursion_group = set(group or ())
        rep = eng.verify(target)
        rep = verify.discharge(eng, rep, timeout_ms)
        rep["assumed_used"] = sorted(eng.assumed_used)
        rep["called"] = sorted(eng.called)
        rep["wall"] = round(time.time() - t0, 2)
        rep.pop("_obls", None)
        rep.pop("_exit_hyps", None)
        return rep
    except Exception as e:
        return {"target": target, "crash": traceback.format_exc(), "obligations": {}, "undecided": [], "error": f"crash: {e}",
                "wall": round(time.time() - t0, 2), "paths": 0, "exits": 0, "canary": None, "kind": "?"}


def run_targets(targets, timeout_ms=10000, jobs=None, group=None, slow=None):
    jobs = jobs or min(16, os.cpu_count() or 4)
    out = {}
    slow = slow or {}
    with ProcessPoolExecutor(max_workers=jobs) as ex:
        # functions with a recorded larger budget first (they dominate the wall time)
        order = sorted(targets, key=lambda t: -slow.get(t, 0))
        futs = {ex.submit(_work, (t, max(timeout_ms, slow.get(t, 0)), group)): t for t in order}
        for f in as_completed(futs):
            r = f.result()
            out[r["target"]] = r
    return [out[t] for t in targets]


if __name__ == "__main__":
    ts = sys.argv[1:]
    t0 = time.time()
    for r in run_targets(ts):
        bad = {n: o for n, o in r["obligations"].items() if o["verdict"] != "proved"}
        print(f"{r['target']:55s} paths={r['paths']} exits={r['exits']} canary={r['canary']} obl={len(r['obligations'])} bad={len(bad)} wall={r['wall']}")
        for u in r.get("undecided", []):
            print("    UNDECIDED:", u)
        if r.get("error"):
            print("    ERROR:", r["error"])
            if r.get("crash"):
                print(r["crash"])
        for n, o in bad.items():
            print("    ", n, o["verdict"], json.dumps(o["detail"])[:700])
    print("total wall %.1f" % (time.time() - t0))
