"""VC preprocessing (DESIGN 2.1 solver strategy): goal splitting, skolemisation of universally quantified goals,
manual instantiation of universally quantified hypotheses at the index terms of the goal, case splits."""
from __future__ import annotations
import z3
from typing import List, Tuple

_sk = [0]


def _fresh(sort, name="sk"):
    _sk[0] += 1
    return z3.Const(f"{name}!s{_sk[0]}", sort)


def flatten_and(e, out):
    if z3.is_and(e):
        for c in e.children():
            flatten_and(c, out)
    else:
        out.append(e)


def split_goal(goal, hyps_extra, skolems, depth=0) -> List[Tuple[list, z3.BoolRef]]:
    """-> list of (extra hypotheses, atomic goal piece)"""
    g = goal
    if z3.is_eq(g) and g.arg(0).sort() == z3.BoolSort():
        a, b = g.arg(0), g.arg(1)
        if z3.is_true(a):
            g = b
        elif z3.is_true(b):
            g = a
        elif z3.is_false(a):
            g = z3.Not(b)
        elif z3.is_false(b):
            g = z3.Not(a)
    if z3.is_not(g) and z3.is_not(g.arg(0)):
        g = g.arg(0).arg(0)
    if z3.is_and(g):
        out = []
        for c in g.children():
            out += split_goal(c, list(hyps_extra), skolems, depth + 1)
        return out
    if z3.is_quantifier(g) and g.is_forall():
        vs = [_fresh(g.var_sort(i), g.var_name(i).split("!")[0]) for i in range(g.num_vars())]
        skolems += vs
        body = z3.substitute_vars(g.body(), *reversed(vs))
        return split_goal(body, hyps_extra, skolems, depth + 1)
    if z3.is_implies(g):
        hs = []
        flatten_and(g.arg(0), hs)
        return split_goal(g.arg(1), hyps_extra + hs, skolems, depth + 1)
    if z3.is_not(g) and z3.is_quantifier(g.arg(0)) and g.arg(0).is_exists():
        q = g.arg(0)
        vs = [_fresh(q.var_sort(i), q.var_name(i).split("!")[0]) for i in range(q.num_vars())]
        skolems += vs
        return split_goal(z3.Not(z3.substitute_vars(q.body(), *reversed(vs))), hyps_extra, skolems, depth + 1)
    if z3.is_not(g) and (z3.is_and(g.arg(0)) or (z3.is_quantifier(g.arg(0)) and g.arg(0).is_forall())):
        hs = []
        flatten_and(g.arg(0), hs)
        return [(hyps_extra + hs, z3.BoolVal(False))]
    if z3.is_app(g) and g.decl().kind() == z3.Z3_OP_ITE and g.sort() == z3.BoolSort():
        c, a, b = g.children()
        return split_goal(a, hyps_extra + [c], skolems, depth + 1) + split_goal(b, hyps_extra + [z3.Not(c)], skolems, depth + 1)
    return [(hyps_extra, g)]


def _kind_of_app(e):
    k = e.decl().kind()
    nm = e.decl().name()
    if k == z3.Z3_OP_SELECT:
        return "arr"
    if nm in ("seq.nth", "seq.nth_i", "seq.nth_u", "seq.at") or nm.startswith("nth."):
        return "seq"
    return None


_it_cache = {}


def index_terms(exprs, limit=60):
    """(term, kind) for Int-sorted index arguments of select / nth applications in the quantifier-free parts of exprs
    (one traversal with a shared visited set: hypotheses share most of their subterms)"""
    from .smt import raw_find
    found = {}
    for e in raw_find(list(exprs), ("select", "seq.nth", "seq.nth_i", "seq.nth_u", "seq.at"), skip_quant=True, prefixes="nth."):
        kd = _kind_of_app(e)
        if kd is None or e.num_args() < 2:
            continue
        ix = e.arg(1)
        if ix.sort() == z3.IntSort() and not _has_var(ix):
            found.setdefault((ix.get_id(), kd), (ix, kd))
    return list(found.values())[:limit]


def _index_terms1(e0):
    """(term, kind) for Int-sorted arguments of select / seq.nth applications in quantifier-free parts."""
    from .smt import raw_find
    found = {}
    for e in raw_find(e0, ("select", "seq.nth", "seq.nth_i", "seq.nth_u", "seq.at"), skip_quant=True, prefixes="nth."):
        kd = _kind_of_app(e)
        if kd is None or e.num_args() < 2:
            continue
        ix = e.arg(1)
        if ix.sort() == z3.IntSort() and not _has_var(ix):
            found.setdefault((ix.get_id(), kd), (ix, kd))
    return list(found.values())


_hq2 = {}


def _has_var_or_quant(e):
    i = e.get_id()
    r = _hq2.get(i)
    if r is not None:
        return r[0]
    v = z3.is_quantifier(e) or any(_has_var_or_quant(c) for c in e.children())
    _hq2[i] = (v, e)
    return v


_hv_cache = {}


def _has_var(e):
    i = e.get_id()
    r = _hv_cache.get(i)
    if r is not None:
        return r[0]
    if z3.is_var(e):
        v = True
    elif z3.is_quantifier(e):
        v = True
    else:
        v = any(_has_var(c) for c in e.children())
    _hv_cache[i] = (v, e)     # keep e alive so that the id is not reused
    return v


_vk_cache = {}


def var_kinds(q):
    i = q.get_id()
    r = _vk_cache.get(i)
    if r is None:
        r = (_var_kinds1(q), q)
        _vk_cache[i] = r
    return r[0]


def _var_kinds1(q):
    """How each bound variable is used directly as an index: 'arr', 'seq' or 'any'."""
    n = q.num_vars()
    kinds = [set() for _ in range(n)]

    def walk(e):
        if z3.is_app(e):
            kd = _kind_of_app(e)
            if kd is not None and z3.is_var(e.arg(1)):
                i = n - 1 - z3.get_var_index(e.arg(1))
                if 0 <= i < n:
                    kinds[i].add(kd)
            for c in e.children():
                walk(c)
        elif z3.is_quantifier(e):
            pass

    walk(q.body())
    return [next(iter(k)) if len(k) == 1 else "any" for k in kinds]


def instantiate(q, cands):
    """Instances of a universally quantified hypothesis (<= 2 bound variables) at candidate (term, kind) pairs whose
    kind matches the way the bound variable is used (select index / seq.nth index)."""
    n = q.num_vars()
    if n > 2:
        return []
    kinds = var_kinds(q)
    per = []
    for i in range(n):
        srt = q.var_sort(i)
        ts = [t for t, kd in cands if t.sort() == srt and (kinds[i] == "any" or kd == "any" or kd == kinds[i])]
        per.append(dedupe(ts))
    out = []
    if n == 1:
        for t in per[0]:
            out.append(z3.substitute_vars(q.body(), t))
    else:
        for t0 in per[0][:10]:
            for t1 in per[1][:10]:
                out.append(z3.substitute_vars(q.body(), t1, t0))
    return out


_pn = [0]


def prenex(f):
    """f is in NNF (only positive universal quantifiers): pull every forall to the top. Valid because the domain is
    non-empty and bound variables are renamed apart (each becomes a fresh constant that is re-abstracted)."""
    consts = []

    def strip(e):
        if z3.is_quantifier(e):
            if not e.is_forall():
                return e     # existential left in place (snf should have removed them)
            vs = []
            for i in range(e.num_vars()):
                _pn[0] += 1
                vs.append(z3.Const(f"pn!{_pn[0]}", e.var_sort(i)))
            consts.extend(vs)
            return strip(z3.substitute_vars(e.body(), *reversed(vs)))
        if z3.is_and(e):
            return z3.And([strip(c) for c in e.children()])
        if z3.is_or(e):
            return z3.Or([strip(c) for c in e.children()])
        return e

    m = strip(f)
    if not consts:
        return m
    return z3.ForAll(consts, m)


_snf = None


def normalize_nested(h):
    """A hypothesis with quantifiers below the top level -> list of formulas, each quantifier-free or a top-level forall.
    Uses z3's `snf` tactic (NNF + skolemisation: sound for hypotheses) followed by prenexing."""
    global _snf
    if _snf is None:
        _snf = z3.Tactic("snf")
    g = z3.Goal()
    g.add(h)
    try:
        r = _snf(g)
    except z3.Z3Exception:
        return [h]
    out = []
    for sub in r:
        for f in sub:
            for x in distribute(f):
                out.append(prenex(x))
    return out


def distribute(f, budget=200):
    """NNF formula -> equivalent list of conjuncts, distributing `or` over `and` (bounded); quantifier bodies untouched."""
    if z3.is_and(f):
        out = []
        for c in f.children():
            out += distribute(c, budget)
        return out
    if z3.is_or(f):
        parts = [distribute(c, budget) for c in f.children()]
        total = 1
        for p in parts:
            total *= len(p)
        if total > budget or total == 1:
            return [f]
        acc = [[]]
        for p in parts:
            acc = [a + [x] for a in acc for x in p]
        return [z3.Or(a) if len(a) > 1 else a[0] for a in acc]
    return [f]


def prepare(hyps: List[z3.BoolRef], goal: z3.BoolRef, extra_terms=()):
    """-> list of pieces: dict(goal=..., hyps_qf=[...], hyps_full=[...])"""
    flat0 = []
    for h in hyps:
        flatten_and(h, flat0)
    flat = []
    flat1 = []
    for h in flat0:
        if z3.is_not(h) and z3.is_quantifier(h.arg(0)):
            q = h.arg(0)
            vs = [z3.Const(f"nq!{q.get_id()}!{i}", q.var_sort(i)) for i in range(q.num_vars())]
            body = z3.substitute_vars(q.body(), *reversed(vs))
            if q.is_exists():
                h = z3.ForAll(vs, z3.Not(body))      # not exists x. P  ==  forall x. not P
            else:
                _sk[0] += 1
                h = z3.Not(body)                      # not forall x. P : skolemise (the nq! constants are fresh)
            flatten_and(h, flat1)
        else:
            flat1.append(h)
    for h in flat1:
        if z3.is_quantifier(h) or not _has_var_or_quant(h):
            flat.append(h)
        else:
            for x in normalize_nested(h):
                flatten_and(x, flat)
    ground, quants = [], []
    for h in flat:
        if z3.is_quantifier(h) and h.is_forall():
            quants.append(h)
        elif z3.is_quantifier(h) and h.is_exists():
            vs = [_fresh(h.var_sort(i), h.var_name(i).split("!")[0]) for i in range(h.num_vars())]
            b = z3.substitute_vars(h.body(), *reversed(vs))
            tmp = []
            flatten_and(b, tmp)
            for x in tmp:
                (quants if (z3.is_quantifier(x) and x.is_forall()) else ground).append(x)
        else:
            ground.append(h)
    pieces = []
    for extra, g in split_goal(goal, [], skolems := []):
        ex_ground, ex_q = [], []
        for x in extra:
            (ex_q if (z3.is_quantifier(x) and x.is_forall()) else ex_ground).append(x)
        base = [(z3.simplify(t), kd) for t, kd in index_terms([g] + ex_ground + ground)]
        have = {(t.get_id(), kd) for t, kd in base}
        cands = []
        for t, kd in base:
            if not any(t.get_id() == t0.get_id() and kd == k0 for t0, k0 in cands):
                cands.append((t, kd))
        # skolems that never occur as an index and explicit hint terms are offered to every quantifier
        for t in list(skolems) + list(extra_terms):
            if not any(t.get_id() == i for i, _ in have):
                cands.append((t, "any"))
        # element terms nth.Ref(S, j) of the goal side are offered to quantifiers over objects (comprehension binders)
        allq = quants + ex_q
        if any(q.var_sort(i).name() == "Ref" for q in allq for i in range(q.num_vars())):
            from .smt import raw_find
            seen_r = set()
            for src_e in [g] + ex_ground:
                for e in raw_find(src_e, ("nth.Ref",), skip_quant=True):
                    if e.get_id() not in seen_r and not _has_var(e) and len(seen_r) < 12:
                        seen_r.add(e.get_id())
                        cands.append((e, "any"))
        inst = []
        for q in allq:
            inst += instantiate(q, cands)
        # second round: index terms that appear through the first round of instances
        more = []
        for t, kd in index_terms(inst):
            t = z3.simplify(t)
            if (t.get_id(), kd) not in have and not any(t.get_id() == t0.get_id() and kd == k0 for t0, k0 in more):
                more.append((t, kd))
        if more and len(more) <= 80:
            cands2 = cands + more
            inst = []
            for q in allq:
                inst += instantiate(q, cands2)
        # a small, goal-directed instantiation (index terms of the goal side and hint terms only) is tried first by the solver
        small_c = []
        for t, kd in [(z3.simplify(t), kd) for t, kd in index_terms([g] + ex_ground)]:
            if not any(t.get_id() == t0.get_id() and kd == k0 for t0, k0 in small_c):
                small_c.append((t, kd))
        for t in list(skolems) + list(extra_terms):
            if not any(t.get_id() == t0.get_id() for t0, _ in small_c):
                small_c.append((t, "any"))
        small_c += [c for c in cands if c[1] == "any" and c[0].sort().name() == "Ref"][:12]
        inst_small = []
        if len(small_c) < len(cands):
            for q in allq:
                inst_small += instantiate(q, small_c)
            more_s = []
            for t, kd in index_terms(inst_small):
                t = z3.simplify(t)
                if not any(t.get_id() == t0.get_id() and kd == k0 for t0, k0 in small_c + more_s):
                    more_s.append((t, kd))
            if more_s and len(more_s) <= 30:
                inst_small = []
                for q in allq:
                    inst_small += instantiate(q, small_c + more_s)
        pieces.append({"goal": g, "hyps_qf": ground + ex_ground + inst, "hyps_full": ground + ex_ground + inst + allq,
                       "hyps_small": (ground + ex_ground + inst_small) if inst_small else None})
    return pieces


def skolems_of_sort(sk, sort):
    return [s for s in sk if s.sort() == sort]


def dedupe(ts):
    """dedupe modulo arithmetic simplification (it + 1 - 1 and it are the same instantiation term)"""
    seen, out = set(), []
    for t in ts:
        t2 = z3.simplify(t) if t.sort() == z3.IntSort() else t
        if t2.get_id() not in seen:
            seen.add(t2.get_id())
            out.append(t2)
    return out


def nth_axioms(formulas, rounds=10, limit=6000):
    """Ground instances of the definition of indexing for every nth.int(S, J) term whose S is (equal to) a concatenation,
    unit, empty or ite:  nth(X ++ Y, j) = j < |X| ? nth(X, j) : nth(Y, j - |X|);  nth(unit(v), 0) = v."""
    from .smt import nth_int
    eqs = {}

    def collect_eqs(e):
        if z3.is_eq(e) and z3.is_seq(e.arg(0)):
            a, b = e.arg(0), e.arg(1)
            eqs.setdefault(a.get_id(), []).append(b)
            eqs.setdefault(b.get_id(), []).append(a)
        elif z3.is_and(e):
            for c in e.children():
                collect_eqs(c)

    for f in formulas:
        collect_eqs(f)
    done = set()
    out = []
    work = list(formulas)
    for _ in range(rounds):
        apps = {}
        from .smt import raw_find as _rf
        for a in _rf(list(work), (), skip_quant=True, prefixes="nth."):
            if a.num_args() == 2 and not _has_var(a):
                apps[a.get_id()] = a
        new = []
        for a in apps.values():
            S, J = a.arg(0), a.arg(1)
            key = (S.get_id(), J.get_id())
            if key in done:
                continue
            done.add(key)
            nf = a.decl()
            for ax in _nth_def(S, J, nf):
                new.append(ax)
            for B in eqs.get(S.get_id(), []):
                k2 = (B.get_id(), J.get_id())
                if k2 not in done and _structured(B):
                    done.add(k2)
                    new.append(nf(S, J) == nf(B, J))
                    new += _nth_def(B, J, nf)
        if not new or len(out) > limit:
            break
        out += new
        work = new
    return out


_na_cache = {}


def _nth_apps(f):
    i = f.get_id()
    r = _na_cache.get(i)
    if r is not None:
        return r[0]
    apps = {}
    from .smt import raw_find
    for e in raw_find(f, (), skip_quant=True, prefixes="nth."):
        if e.num_args() == 2 and not _has_var(e):
            apps[e.get_id()] = e
    res = list(apps.values())
    _na_cache[i] = (res, f)
    return res


def _structured(S):
    if not z3.is_app(S):
        return False
    k = S.decl().kind()
    return k in (z3.Z3_OP_SEQ_CONCAT, z3.Z3_OP_SEQ_UNIT, z3.Z3_OP_SEQ_EMPTY, z3.Z3_OP_ITE, z3.Z3_OP_SEQ_EXTRACT)


def _nth_def(S, J, nth_int):
    if not z3.is_app(S):
        return []
    k = S.decl().kind()
    if k == z3.Z3_OP_SEQ_UNIT:
        return [z3.Implies(J == 0, nth_int(S, J) == S.arg(0))]
    if k == z3.Z3_OP_SEQ_CONCAT:
        out = []
        off = z3.IntVal(0)
        parts = []

        def flat(e):
            if z3.is_app(e) and e.decl().kind() == z3.Z3_OP_SEQ_CONCAT:
                for c in e.children():
                    flat(c)
            else:
                parts.append(e)

        flat(S)
        for X in parts:
            ln = z3.Length(X)
            out.append(z3.Implies(z3.And(off <= J, J < off + ln), nth_int(S, J) == nth_int(X, z3.simplify(J - off))))
            off = z3.simplify(off + ln)
        return out
    if k == z3.Z3_OP_ITE:
        c, A, B = S.children()
        return [z3.Implies(c, nth_int(S, J) == nth_int(A, J)), z3.Implies(z3.Not(c), nth_int(S, J) == nth_int(B, J))]
    if k == z3.Z3_OP_SELECT and z3.is_app(S.arg(0)) and S.arg(0).decl().kind() == z3.Z3_OP_STORE:
        # a list read out of an updated map:  store(A, k, V)[b]  is V when b == k and A[b] otherwise
        A, kk, V = S.arg(0).children()
        b = S.arg(1)
        return [z3.Implies(b == kk, nth_int(S, J) == nth_int(V, J)),
                z3.Implies(b != kk, nth_int(S, J) == nth_int(z3.Select(A, b), J)),
                z3.Implies(b == kk, z3.Length(S) == z3.Length(V))]
    if k == z3.Z3_OP_SEQ_EXTRACT:
        X, o, l = S.children()
        return [z3.Implies(z3.And(0 <= J, J < l, 0 <= o, o + J < z3.Length(X)), nth_int(S, J) == nth_int(X, z3.simplify(o + J)))]
    return []


def ext_goal(g):
    """Extensionality as a proof rule for integer sequences: A == B follows from equal lengths and pointwise equal
    elements (w.r.t. the indexing symbol nth.int). Returns the replacement goal or None."""
    from .smt import seq_nth
    if z3.is_eq(g) and z3.is_seq(g.arg(0)) and not z3.is_string(g.arg(0)):
        A, B = g.arg(0), g.arg(1)
        j = z3.Int("j!ext")
        return z3.And(z3.Length(A) == z3.Length(B),
                      z3.ForAll([j], z3.Implies(z3.And(0 <= j, j < z3.Length(A)), seq_nth(A, j) == seq_nth(B, j))))
    return None
