"""Calls: inlining, contracts (modular calls), constructors, builtins, spec forms, spec functions (mixin)."""
from __future__ import annotations
import ast, z3
from typing import Any, Dict, List, Optional, Tuple
from . import front, smt
from .front import OutsideSubset, ContractError, EffectMissing
from .smt import T, parse_T, Ref, Dyn, Flt, Int, Bool, Str
from .values import *
from .state import *
from .interp import *
from .evalm import SuperVal, SPEC_FORMS
from .execm import loop_ordinals


class CallMixin:
    # ================================================================= Call expression
    def ev_Call(self, st: State, n):
        f = n.func
        if isinstance(f, ast.Name):
            ok, _ = self.env_lookup(st.frame.env, f.id)
            if not ok and f.id in SPEC_FORMS and f.id not in self.specs:
                return self.spec_form(st, f.id, n)
            if not ok and f.id == "isinstance":
                return self.do_isinstance(st, n)
            if not ok and f.id == "super":
                return self.do_super(st)
        fv = self.ev(st, f)
        args, kwargs = [], {}
        for a in n.args:
            if isinstance(a, ast.Starred):
                its = self.concrete_items(st, self.force(st, self.ev(st, a.value)))
                if its is None:
                    raise OutsideSubset("*args of symbolic length")
                args += its
            else:
                args.append(self.ev(st, a))
        for k in n.keywords:
            if k.arg is None:
                d = self.force(st, self.ev(st, k.value))
                if isinstance(d, HeapRef) and st.obj(d).kind == "dict":
                    for kk, vv in st.obj(d).items.items():
                        kwargs[kk] = vv
                else:
                    raise OutsideSubset("**kwargs of symbolic dict")
            else:
                kwargs[k.arg] = self.ev(st, k.value)
        return self.call(st, fv, args, kwargs, n)

    def do_isinstance(self, st, n):
        v = self.ev(st, n.args[0])
        cn = n.args[1]
        names = []
        for c in (cn.elts if isinstance(cn, ast.Tuple) else [cn]):
            if isinstance(c, ast.Name):
                names.append(c.id)
            elif isinstance(c, ast.Attribute):
                names.append(c.attr)
            else:
                raise OutsideSubset("isinstance class expression")
        return zbool(z3.Or([self.isinstance_cond(st, v, nm) for nm in names]))

    def do_super(self, st):
        fr = st.frame
        ok, selfv = self.env_lookup(fr.env, "self")
        cls = getattr(fr, "cls", None)
        if not ok or cls is None:
            raise OutsideSubset("super() outside method")
        return SuperVal(selfv, cls)

    def super_getattr(self, st, sv: SuperVal, name):
        m = front.mro(sv.cls)
        for c in m[1:]:
            if name in c.methods:
                return Func(c.methods[name], c.module, {}, f"{c.name}.{name}", self_val=sv.self_val, cls=c)
        return Builtin("noop")

    # ================================================================= generic call
    def call(self, st: State, fv, args, kwargs, node=None):
        if isinstance(fv, Union):
            if st.spec:
                vals = []
                for c, x in fv.alts:
                    try:
                        vals.append((c, self.call(st, x, args, kwargs, node)))
                    except PyRaise:
                        continue      # partial operation: unspecified where it is undefined
                if not vals:
                    raise OutsideSubset("spec expression undefined on every alternative")
                out = vals[-1][1]
                for c, x in reversed(vals[:-1]):
                    out = self.merge(st, c, x, out)
                return out
            fv = self.force(st, fv, "callee")
        if isinstance(fv, Func):
            return self.call_func(st, fv, args, kwargs)
        if isinstance(fv, MethodRef):
            return self.call_method_ref(st, fv, args, kwargs)
        if isinstance(fv, ClassVal):
            return self.construct(st, fv, args, kwargs)
        if isinstance(fv, SpecFn):
            return self.call_spec(st, fv, args, kwargs)
        if isinstance(fv, Builtin):
            return self.call_builtin(st, fv, args, kwargs, node)
        if isinstance(fv, Opaque) and fv.tag.startswith("lemma:"):
            key = "lemmas:" + fv.tag[6:]
            return self.apply_contract(st, self.contracts[key], args, kwargs, key)
        if isinstance(fv, Opaque) and fv.tag.split(".")[-1] in getattr(self, "effect_names", ()):
            # a call into the outside world (file system, logging): recorded in the concrete effect log of the path
            st.ghost.setdefault("effects", []).append((fv.tag.split(".")[-1], fv.tag, list(args), dict(kwargs)))
            return Opaque(fv.tag + "()")
        if isinstance(fv, Opaque) and ("method:" + fv.tag.split(".")[-1]) in getattr(self, "opaque_ok", ()):
            return Opaque(fv.tag + "()")        # a pure observer of an unknown value (e.g. Path.resolve)
        if isinstance(fv, Opaque):
            key = "opaque:" + fv.tag
            c = self.contracts.get(key)
            if c is not None:
                return self.apply_contract(st, c, args, kwargs, key)
            raise OutsideSubset(f"call of unknown function value {fv.tag}")
        raise OutsideSubset(f"call of {fv!r}")

    def call_func(self, st, f: Func, args, kwargs):
        if f.self_val is not None:
            args = [f.self_val] + list(args)
        key = f"{f.module}:{getattr(f, 'decorated', None) or f.qualname}"
        c = self.contracts.get(key)
        node = f.node
        cur = self.contracts.get(self.current_target) if self.current_target else None
        forced = key in ((cur.options.get("inline_calls") or ()) if cur is not None else ())
        if forced:
            return self.run_body(st, f, args, kwargs, c)
        if f is getattr(self, "body_func", None) and key == self.current_target:
            return self.run_body(st, f, args, kwargs, self.body_contract)   # the decorated target calling its own body
        if c is not None and not c.inline and c.kind in ("proved", "assumed", "lemma"):
            return self.apply_contract(st, c, args, kwargs, key)
        is_local = isinstance(node, ast.Lambda) or ".<lambda>" in f.qualname or getattr(f, "local", False) or bool(f.env)
        if is_local or f.module in INLINE_MODULES or (c is not None and c.inline) or key in getattr(self, "inline_ok", ()) \
                or f.module.startswith("spec.") or f.module.startswith("lemmas."):
            return self.run_body(st, f, args, kwargs, c)
        if c is None and isinstance(node, (ast.FunctionDef,)) and key != self.current_target \
                and not any(isinstance(x, (ast.For, ast.While, ast.AsyncFor, ast.Yield, ast.YieldFrom)) for x in ast.walk(node)) \
                and not any(isinstance(x, ast.Call) and isinstance(x.func, ast.Name) and x.func.id == node.name for x in ast.walk(node)) \
                and sum(1 for x in ast.walk(node) if isinstance(x, ast.stmt)) <= 25:
            # a helper without contract that has no loop and does not call itself (typically one extracted by a refactoring):
            # executing its real body in place is always sound, so it is inlined rather than reported as outside the subset
            st.notes.append(f"auto-inlined contract-less loop-free helper {key}")
            return self.run_body(st, f, args, kwargs, c)
        raise OutsideSubset(f"call to {key}, which has neither a contract nor an inline mark")

    def bind_params(self, st, f: Func, args, kwargs, env):
        a = f.node.args
        params = [x.arg for x in a.posonlyargs] + [x.arg for x in a.args]
        defaults = [None] * (len(params) - len(a.defaults)) + list(a.defaults)
        args = list(args)
        kwargs = dict(kwargs)
        for i, p in enumerate(params):
            if i < len(args):
                env[p] = args[i]
            elif p in kwargs:
                env[p] = kwargs.pop(p)
            elif defaults[i] is not None:
                st.frames.append(Frame({"__parent__": f.env}, f.module, f.qualname))
                try:
                    env[p] = self.ev(st, defaults[i])
                finally:
                    st.frames.pop()
            else:
                if st.spec:
                    raise ContractError(f"missing argument {p} for {f.qualname}")
                raise PyRaise(self.make_exc(st, "TypeError", [zstr("missing argument " + p)]))
        extra = args[len(params):]
        if a.vararg:
            env[a.vararg.arg] = PyTuple(extra)
        elif extra:
            raise PyRaise(self.make_exc(st, "TypeError", [zstr("too many arguments")]))
        for ko, kd in zip(a.kwonlyargs, a.kw_defaults):
            if ko.arg in kwargs:
                env[ko.arg] = kwargs.pop(ko.arg)
            elif kd is not None:
                env[ko.arg] = self.ev(st, kd)
            else:
                raise PyRaise(self.make_exc(st, "TypeError", []))
        if a.kwarg:
            env[a.kwarg.arg] = st.alloc(HeapObj("dict", "dict", items=dict(kwargs)))
        elif kwargs:
            raise PyRaise(self.make_exc(st, "TypeError", [zstr("unexpected keyword " + ",".join(kwargs))]))

    def run_body(self, st, f: Func, args, kwargs, contract=None):
        if len(st.frames) > 60:
            raise OutsideSubset("inlining depth exceeded (unbounded recursion without contract?)")
        env = {"__parent__": f.env}
        self.bind_params(st, f, args, kwargs, env)
        if contract is not None and contract is getattr(self, "body_contract_obj", None):
            for gk, gv in (getattr(self, "ghost_env", None) or {}).items():
                env.setdefault(gk, gv)
        fr = Frame(env, f.module, f.qualname)
        fr.contract = contract
        fr.cls = f.cls
        fr.spec_module = getattr(st.frame, "spec_module", None) if st.frames else None
        if isinstance(f.node, ast.Lambda):
            st.frames.append(fr)
            try:
                return self.ev(st, f.node.body)
            finally:
                st.frames.pop()
        fr.loop_map = loop_ordinals(f.node)
        is_gen = any(isinstance(x, (ast.Yield, ast.YieldFrom)) for x in ast.walk(f.node) if not isinstance(x, ast.Lambda))
        fr.yields = True if is_gen else None
        if is_gen:
            # a generator is modelled by the list of the values it yields (no interleaving with the consumer is modelled)
            fr.env["__yields__"] = st.alloc(HeapObj("list", "list", items=[]))
        st.frames.append(fr)
        try:
            body = f.node.body
            if st.spec and (f.module.startswith("spec.") or f.module.startswith("lemmas.")):
                return self.eval_spec_body(st, body)
            try:
                self.exec_block(st, body)
            except ReturnSig as r:
                if is_gen:
                    return fr.env["__yields__"]
                return r.value
            if is_gen:
                return fr.env["__yields__"]
            return NONE
        finally:
            st.frames.pop()

    def ev_Yield(self, st, n):
        fr = st.frame
        if getattr(fr, "yields", None) is None:
            raise OutsideSubset("yield")
        v = self.ev(st, n.value) if n.value is not None else NONE
        ok, cur = self.env_lookup(fr.env, "__yields__")
        if isinstance(cur, HeapRef):
            st.obj(cur).items.append(v)
        elif isinstance(cur, Z) and cur.t.kind == "seq":
            fr.env["__yields__"] = Z(cur.t, z3.Concat(cur.e, z3.Unit(self.to_z(st, v, cur.t.args[0]).e)))
        else:
            raise OutsideSubset("yield")
        return NONE

    # ----------------------------------------------------------------- spec bodies (functional evaluation, merged)
    def eval_spec_body(self, st, stmts):
        """Pure function body: assignments, if/elif/else, return. Result is the ite-merge over the branches."""
        for i, s in enumerate(stmts):
            if isinstance(s, ast.Expr) and isinstance(s.value, ast.Constant):
                continue
            if isinstance(s, ast.Return):
                return self.ev(st, s.value) if s.value is not None else NONE
            if isinstance(s, ast.Assign):
                v = self.ev(st, s.value)
                for t in s.targets:
                    self.assign(st, t, v)
                continue
            if isinstance(s, ast.If):
                c = self.truthy(st, self.ev(st, s.test))
                rest = stmts[i + 1:]
                if is_true(c):
                    return self.eval_spec_body(st, s.body + rest)
                if is_false(c):
                    return self.eval_spec_body(st, s.orelse + rest)
                saved = dict(st.frame.env)
                a = self.eval_spec_body(st, s.body + rest)
                st.frame.env.clear()
                st.frame.env.update(saved)
                b = self.eval_spec_body(st, s.orelse + rest)
                st.frame.env.clear()
                st.frame.env.update(saved)
                return self.merge(st, c, a, b)
            if isinstance(s, ast.Pass):
                continue
            raise ContractError(f"statement {type(s).__name__} in a spec function body")
        return NONE

    # ================================================================= spec functions
    def spec_sig(self, sf: SpecFn):
        ps = []
        for a in sf.node.args.args:
            if a.annotation is None:
                raise ContractError(f"spec function {sf.name}: parameter {a.arg} needs a sort annotation")
            ps.append((a.arg, self.resolve_T(parse_T(ast.unparse(a.annotation).strip("'\"")))))
        if sf.node.returns is None:
            raise ContractError(f"spec function {sf.name}: return sort missing")
        return ps, self.resolve_T(parse_T(ast.unparse(sf.node.returns).strip("'\"")))

    def flat_sorts(self, t: T):
        if t.kind == "arr":
            return [z3.ArraySort(Int, Int), Int]
        if t.kind == "char":
            return [Int]
        return [t.z3sort()]

    def flat_terms(self, st, v, t: T):
        if t.kind == "arr":
            if not isinstance(v, Arr):
                v = self.seq_to_arr(st, v)
            return [v.a, v.n]
        if t.kind == "char":
            return [self.as_int(st, v)]
        if t.kind == "int":
            return [self.as_int(st, v)]
        if t.kind == "bool":
            return [self.truthy(st, v)]
        return [self.to_z(st, v, t).e]

    def call_spec(self, st, sf: SpecFn, args, kwargs):
        ps, rt = self.spec_sig(sf)
        if kwargs:
            names = [p for p, _ in ps]
            args = list(args) + [kwargs[n] for n in names[len(args):]]
        if len(args) != len(ps):
            raise ContractError(f"spec function {sf.name}: arity")
        cur0 = self.contracts.get(self.current_target) if self.current_target else None
        opaque_here = cur0 is not None and sf.name in (cur0.options.get("opaque") or ())
        if sf.pure and not opaque_here:
            res = self.unfold_spec(st, sf, ps, args)
            if isinstance(res, Z) and rt.kind == "ref" and res.t.kind == "ref" and rt.cls:
                res = Z(rt, res.e)
            return res
        terms, sorts = [], []
        for (p, t), a in zip(ps, args):
            terms += self.flat_terms(st, a, t)
            sorts += self.flat_sorts(t)
        if rt.kind == "bool":
            rs = Bool
        else:
            rs = rt.z3sort()
        fn = smt.ufunc("spec." + sf.name, *sorts, rs)
        app = fn(*terms)
        res = Z(rt, app)
        # definitional axiom for this application (fuel-limited, closed over enclosing bound variables)
        key = app.sexpr()
        done = st.ghost.setdefault("__unfolded", set())
        abstract = len(sf.node.body) >= 1 and isinstance(sf.node.body[-1], ast.Expr) and isinstance(sf.node.body[-1].value, ast.Constant) \
            and sf.node.body[-1].value.value is Ellipsis
        cur = self.contracts.get(self.current_target) if self.current_target else None
        if cur is not None and sf.name in (cur.options.get("no_unfold") or ()) and st.fuel <= 1:
            abstract = True
        if opaque_here:
            abstract = True       # option("opaque", [...]): a defined (pure) function used as an uninterpreted symbol in this proof       # this function's proof treats the symbol as opaque (it only matches applications syntactically)
        if key not in done and st.fuel > 0 and not abstract:
            done.add(key)
            st.fuel -= 1
            try:
                vals = []
                for (p, t), a in zip(ps, args):
                    vals.append(a if t.kind in ("arr",) else (self.to_z(st, a, t) if t.is_smt() else a))
                body = self.unfold_spec(st, sf, ps, vals)
            finally:
                st.fuel += 1
            if rt.kind == "bool":
                ax = app == self.truthy(st, body)
            else:
                ax = app == self.to_z(st, body, rt).e
            if st.bound:
                ax = z3.ForAll(list(st.bound), ax, patterns=[app] if all(self._mentions(app, b) for b in st.bound) else [])
            st.axioms.append(ax)
        self.auto_lemmas(st, sf, ps, args, app)
        return res

    def auto_lemmas(self, st, sf, ps, args, app):
        """Facts proved once by induction (lemma contracts with option auto_for=<spec function>) are attached to every
        application of that spec function."""
        for lc in getattr(self, "auto_lemma_index", {}).get(sf.name, ()):
            if self.current_target == lc.target or getattr(self, "_in_auto", False):
                continue
            key = ("auto", lc.target, app.sexpr())
            done = st.ghost.setdefault("__unfolded", set())
            if key in done:
                continue
            done.add(key)
            env = {}
            for (p, ann), a in zip(lc.params, args):
                env[p] = a
            fr = Frame(env, None, lc.target)
            fr.spec_module = None
            st.frames.append(fr)
            self._in_auto = True
            try:
                pre = [self.truthy(st, self.ev_spec(st, r)) for r in lc.requires]
                for e in lc.ensures:
                    g = self.truthy(st, self.ev_spec(st, e))
                    ax = z3.Implies(z3.And(pre), g) if pre else g
                    if st.bound:
                        ax = z3.ForAll(list(st.bound), ax)
                    st.axioms.append(ax)
                self.called.add(lc.target)
            finally:
                self._in_auto = False
                st.frames.pop()

    def _mentions(self, e, v):
        if e.eq(v):
            return True
        return any(self._mentions(c, v) for c in e.children())

    def unfold_spec(self, st, sf: SpecFn, ps, vals):
        env = {}
        for (p, t), v in zip(ps, vals):
            if isinstance(v, Z) and t.kind == "ref" and v.t.kind == "ref":
                if not (v.t.cls and t.cls and self.model_is_sub(v.t.cls, t.cls)):
                    v = Z(t, v.e)   # keep a narrower static class of the argument (prunes isinstance chains)
            elif t.is_smt() and not isinstance(v, Z):
                v = self.to_z(st, v, t)
            elif isinstance(v, Z) and v.t.kind == "tuple" and t.kind == "ref":
                v = self.to_z(st, v, t)
            elif t.kind == "arr" and not isinstance(v, Arr):
                v = self.seq_to_arr(st, v)
            env[p] = v
        fr = Frame(env, sf.module, sf.name)
        fr.spec_module = sf.module
        st.frames.append(fr)
        st.spec += 1
        saved = getattr(self, "_spec_field_fallback", False)
        self._spec_field_fallback = True
        try:
            return self.eval_spec_body(st, sf.node.body)
        finally:
            self._spec_field_fallback = saved
            st.spec -= 1
            st.frames.pop()

    # ================================================================= spec forms
    def spec_form(self, st, name, n):
        A = n.args
        if name == "old":
            return self.eval_old(st, A[0])
        if name == "result":
            return st.result
        if name == "implies":
            a = self.truthy(st, self.ev_spec(st, A[0]))
            if is_false(a):
                return zbool(True)
            try:
                b = self.truthy(st, self.ev_spec(st, A[1]))
            except (PyRaise, OutsideSubset):
                b = st.fresh("unspecified", Bool)   # partial operation in the consequent: unspecified where it is undefined
            return zbool(z3.Implies(a, b))
        if name == "iff":
            return zbool(self.truthy(st, self.ev_spec(st, A[0])) == self.truthy(st, self.ev_spec(st, A[1])))
        if name == "ite":
            c = self.truthy(st, self.ev_spec(st, A[0]))
            if is_true(c):
                return self.ev_spec(st, A[1])       # decided condition: the other branch is not even evaluated
            if is_false(c):
                return self.ev_spec(st, A[2])
            return self.merge(st, c, self.ev_spec(st, A[1]), self.ev_spec(st, A[2]))
        if name in ("forall", "exists"):
            return self.quantifier(st, name, A)
        if name == "let":
            v = self.ev_spec(st, A[0])
            return self.eval_lambda_spec(st, A[1], [v], st.frame)
        if name == "unfold":
            st.fuel += 1
            try:
                return self.ev_spec(st, A[0])
            finally:
                st.fuel -= 1
        if name == "seq_unit":
            v = self.ev_spec(st, A[0])
            if not isinstance(v, Z):
                v = self.to_z(st, v, T("dyn"))
            return Z(T("seq", (v.t,)), z3.Unit(v.e))
        if name == "seq_empty":
            t = self.resolve_T(parse_T(ast.literal_eval(A[0])))
            return Z(T("seq", (t,)), z3.Empty(z3.SeqSort(t.z3sort() if t.kind != "char" else Int)))
        if name == "seq_extract":
            s = self.ev_spec(st, A[0])
            return Z(s.t, z3.Extract(s.e, self.as_int(st, self.ev_spec(st, A[1])), self.as_int(st, self.ev_spec(st, A[2]))))
        if name == "seq_contains":
            s = self.ev_spec(st, A[0])
            x = self.to_z(st, self.ev_spec(st, A[1]), s.t.args[0])
            return zbool(z3.Contains(s.e, z3.Unit(x.e)))
        if name == "dyn_int":
            return Z(T("dyn"), smt.dyn_ctor("DInt")(self.as_int(st, self.ev_spec(st, A[0]))))
        if name == "dyn_none":
            return Z(T("dyn"), smt.dyn_ctor("DNone"))
        if name == "to_dyn":
            return Z(T("dyn"), self.to_dyn(st, self.ev_spec(st, A[0])))
        if name == "py_str":
            return zstr(self.to_str_term(st, self.ev_spec(st, A[0])))
        if name == "dyn_get":
            d = self.to_z(st, self.ev_spec(st, A[0]), T("dyn"))
            k = self.to_z(st, self.ev_spec(st, A[1]), T("str"))
            return Z(T("dyn"), z3.Select(smt.dyn_acc("DDict", 0, d.e), k.e))
        if name == "is_none":
            v = self.ev_spec(st, A[0])
            return zbool(self.is_(st, v, NONE))
        if name == "arr_get":
            a = self.ev_spec(st, A[0])
            if not isinstance(a, Arr):
                a = self.seq_to_arr(st, a)
            return zint(a.a[self.as_int(st, self.ev_spec(st, A[1]))])
        if name == "arr_len":
            a = self.ev_spec(st, A[0])
            if not isinstance(a, Arr):
                a = self.seq_to_arr(st, a)
            return zint(a.n)
        if name == "pw2":
            e = self.as_int(st, self.ev_spec(st, A[0]))
            t = smt.pow2_term(e)
            if not z3.is_int_value(t) and not st.bound:
                st.axioms.append(z3.Implies(e >= 0, t >= 1))
            return zint(t)
        if name == "cls_name":
            v = self.ev_spec(st, A[0])
            if isinstance(v, Z) and v.t.kind == "ref":
                return zstr(smt.cls_of(v.e))
            if isinstance(v, HeapRef):
                return zstr(st.obj(v).cls)
            raise ContractError("cls_name of non-object")
        if name == "str_contains":
            a = self.to_z(st, self.ev_spec(st, A[0]), T("str"))
            b = self.to_z(st, self.ev_spec(st, A[1]), T("str"))
            return zbool(z3.Contains(a.e, b.e))
        if name == "str_to_int":
            return zint(z3.StrToInt(self.to_z(st, self.ev_spec(st, A[0]), T("str")).e))
        if name == "int_to_str":
            return zstr(z3.IntToStr(self.as_int(st, self.ev_spec(st, A[0]))))
        if name == "count":
            s = self.ev_spec(st, A[0])
            x = self.ev_spec(st, A[1])
            return self.seq_count(st, s, x)
        if name == "raised":
            return zbool(st.ghost.get("__raised", z3.BoolVal(False)))
        if name == "ghost":
            return st.ghost[ast.literal_eval(A[0])]
        if name == "map_has":
            d = self.to_z(st, self.ev_spec(st, A[0]), T("dyn"))
            k = self.to_z(st, self.ev_spec(st, A[1]), T("str"))
            return zbool(z3.Select(smt.dyn_acc("DDict", 0, d.e), k.e) != smt.dyn_ctor("DAbsent"))
        if name == "d_ref":
            d = self.to_z(st, self.ev_spec(st, A[0]), T("dyn")).e
            cls = ast.literal_eval(A[1]) if len(A) > 1 else None
            return Z(T("ref", (), cls), smt.dyn_acc("DRef", 0, d))
        if name == "d_name":
            d = self.to_z(st, self.ev_spec(st, A[0]), T("dyn")).e
            return Z(T("str"), smt.dyn_acc("DName", 0, d))
        if name in ("d_int", "d_float", "d_list", "d_chars"):
            d = self.to_z(st, self.ev_spec(st, A[0]), T("dyn")).e
            if name == "d_int":
                return zint(smt.dyn_acc("DInt", 0, d))
            if name == "d_float":
                return Z(T("float"), smt.dyn_acc("DFloat", 0, d))
            if name == "d_list":
                return Z(T("seq", (T("dyn"),)), smt.dyn_acc("DList", 0, d))
            return Z(T("seq", (T("char"),)), smt.dyn_acc("DStr", 0, d))
        if name in ("d_is_int", "d_is_float", "d_is_list", "d_is_str", "d_is_dict", "d_is_none"):
            d = self.to_z(st, self.ev_spec(st, A[0]), T("dyn")).e
            return zbool(smt.dyn_is({"d_is_int": "DInt", "d_is_float": "DFloat", "d_is_list": "DList", "d_is_str": "DStr",
                                     "d_is_dict": "DDict", "d_is_none": "DNone"}[name], d))
        if name == "d_mk_int":
            return Z(T("dyn"), smt.dyn_ctor("DInt")(self.as_int(st, self.ev_spec(st, A[0]))))
        if name == "d_mk_float":
            return Z(T("dyn"), smt.dyn_ctor("DFloat")(self.to_z(st, self.ev_spec(st, A[0]), T("float")).e))
        if name == "d_mk_list":
            return Z(T("dyn"), smt.dyn_ctor("DList")(self.to_z(st, self.ev_spec(st, A[0]), T("seq", (T("dyn"),))).e))
        if name == "d_mk_str":
            return Z(T("dyn"), smt.dyn_ctor("DStr")(self.ev_spec(st, A[0]).e))
        if name == "d_mk_dict_empty":
            return Z(T("dyn"), smt.dyn_ctor("DDict")(z3.K(Str, smt.dyn_ctor("DAbsent"))))
        if name == "d_set":
            d = self.to_z(st, self.ev_spec(st, A[0]), T("dyn")).e
            k = self.to_z(st, self.ev_spec(st, A[1]), T("str")).e
            v = self.to_dyn(st, self.ev_spec(st, A[2]))
            return Z(T("dyn"), smt.dyn_ctor("DDict")(z3.Store(smt.dyn_acc("DDict", 0, d), k, v)))
        if name == "effect_count":
            nm = ast.literal_eval(A[0])
            return zint(len([e for e in st.ghost.get("effects", []) if e[0] == nm]))
        if name == "effect_arg":
            nm, k, i = ast.literal_eval(A[0]), ast.literal_eval(A[1]), ast.literal_eval(A[2])
            es = [e for e in st.ghost.get("effects", []) if e[0] == nm]
            if k >= len(es):
                raise EffectMissing(nm)
            return es[k][2][i]
        if name == "effect_result":
            nm, k = ast.literal_eval(A[0]), ast.literal_eval(A[1])
            es = [e for e in st.ghost.get("effects", []) if e[0] == nm]
            if k >= len(es):
                raise EffectMissing(f"effect {nm}[{k}] did not happen on this path; log: {[e[0] for e in st.ghost.get('effects', [])]}")
            return es[k][4]
        if name == "effect_recv":
            nm, k = ast.literal_eval(A[0]), ast.literal_eval(A[1])
            es = [e for e in st.ghost.get("effects", []) if e[0] == nm]
            if k >= len(es):
                raise EffectMissing(nm)
            return zstr(es[k][1])
        if name == "effect_index":
            # position in the overall log of the k-th effect called nm (to state ordering)
            nm, k = ast.literal_eval(A[0]), ast.literal_eval(A[1])
            idx = [j for j, e in enumerate(st.ghost.get("effects", [])) if e[0] == nm]
            if k >= len(idx):
                raise EffectMissing(nm)
            return zint(idx[k])
        if name == "world":
            return st.ghost["__world"]
        if name == "empty_options":
            return self.empty_dictlike(st, ast.literal_eval(A[0]))
        if name == "fn_name":
            f = self.ev_spec(st, A[0])
            if isinstance(f, Func):
                return zstr((getattr(f, "decorated", None) or f.qualname).split(".")[-1])
            raise ContractError("fn_name of a non-function")
        if name == "d_absent":
            return Z(T("dyn"), smt.dyn_ctor("DAbsent"))
        if name == "size":
            return self.bi_len(st, [self.ev_spec(st, A[0])], {})
        if name == "bitlen":
            return zint(self.bitlen(st, self.as_int(st, self.ev_spec(st, A[0]))))
        raise ContractError(f"spec form {name}")

    def bitlen(self, st, m):
        """int.bit_length for m >= 0: the r with 2^(r-1) <= m < 2^r (0 for m == 0)."""
        fn = smt.ufunc("bitlen", Int, Int)
        r = fn(m)
        st.axioms.append(z3.Implies(m == 0, r == 0))
        st.axioms.append(z3.Implies(m > 0, z3.And(r >= 1, smt.pow2_term(r - 1) <= m, m < smt.pow2_term(r))))
        st.axioms.append(r >= 0)
        return r

    def ev_spec(self, st, node):
        st.spec += 1
        try:
            return self.ev(st, node)
        finally:
            st.spec -= 1

    def eval_old(self, st, node):
        if st.old_heap is None:
            raise ContractError("old() without an entry snapshot")
        cur = st.heap
        st.heap = st.old_heap
        saved_env = None
        fr = st.frame
        if st.old_env is not None:
            saved_env = dict(fr.env)
            for k, v in st.old_env.items():
                fr.env[k] = v
        try:
            return self.ev_spec(st, node)
        finally:
            st.heap = cur
            if saved_env is not None:
                fr.env.clear()
                fr.env.update(saved_env)

    def quantifier(self, st, name, A):
        lam = A[-1]
        if not isinstance(lam, ast.Lambda):
            raise ContractError("forall/exists need a lambda")
        nm = lam.args.args[0].arg
        sort_hint = "int"
        rng = None
        if len(A) == 3:
            rng = (self.as_int(st, self.ev_spec(st, A[0])), self.as_int(st, self.ev_spec(st, A[1])))
        elif len(A) == 2:
            sort_hint = ast.literal_eval(A[0])
        t = self.resolve_T(parse_T(sort_hint))
        # the bound variable is named by nesting depth, so alpha-equivalent quantifiers are the same AST
        v = z3.Const(f"{nm}!q{len(st.bound)}", t.z3sort())
        st.bound.append(v)
        try:
            body = self.truthy(st, self.eval_lambda_spec(st, lam, [Z(t, v)], st.frame))
        finally:
            st.bound.pop()
        if rng is not None:
            guard = z3.And(rng[0] <= v, v < rng[1])
            body = z3.Implies(guard, body) if name == "forall" else z3.And(guard, body)
        return zbool(z3.ForAll([v], body) if name == "forall" else z3.Exists([v], body))

    def seq_count(self, st, s, x):
        if isinstance(s, HeapRef):
            items = self.concrete_items(st, s)
            return zint(z3.Sum([z3.If(self.eq(st, y, x), 1, 0) for y in items]) if items else z3.IntVal(0))
        if isinstance(s, Z) and s.t.kind == "seq":
            et = s.t.args[0]
            xe = self.to_z(st, x, et).e
            fn = smt.ufunc(f"seq_count.{et.kind}.{xe.sort().name()}", s.e.sort(), xe.sort(), Int)
            app = fn(s.e, xe)
            st.axioms.append(app >= 0)
            st.axioms.append(app <= z3.Length(s.e))
            st.axioms.append((app > 0) == z3.Contains(s.e, z3.Unit(xe)))
            st.ghost.setdefault("__counts", []).append((s.e, xe, app))
            return zint(app)
        raise OutsideSubset(f"count on {s!r}")

    # ================================================================= method dispatch on value objects
    def call_method_ref(self, st, mr: MethodRef, args, kwargs):
        recv = mr.recv
        cls = recv.t.cls
        if cls is None:
            raise OutsideSubset("method call on an object of unknown class")
        xkey = f"ext:{cls}.{mr.name}"
        if xkey in self.contracts:      # a method of an external class that is modelled by a class table entry only
            return self.apply_contract(st, self.contracts[xkey], [recv] + list(args), kwargs, xkey)
        groups: Dict[str, Tuple[list, Any]] = {}
        missing = []
        for c in self.concrete_subclasses(cls):
            info = self.find_class_info(c)
            if info is None:
                raise OutsideSubset(f"class {c} not found in the sources")
            r = front.lookup_method(info, mr.name)
            if r is None:
                missing.append(c)
                continue
            dc, node = r
            k = f"{dc.module}:{dc.name}.{mr.name}"
            groups.setdefault(k, ([], (dc, node)))[0].append(c)
        alts = []
        for k, (cs, impl) in groups.items():
            alts.append((z3.Or([smt.cls_of(recv.e) == z3.StringVal(c) for c in cs]), ("impl", cs, impl)))
        if missing:
            alts.append((z3.Or([smt.cls_of(recv.e) == z3.StringVal(c) for c in missing]), ("missing", missing, None)))
        if st.spec:
            live = [(c, p) for c, p in alts if not is_false(c)]
            vals = []
            for c, (kind, cs, impl) in live:
                if kind == "missing":
                    continue
                dc, node = impl
                f = Func(node, dc.module, {}, f"{dc.name}.{mr.name}", self_val=Z(T("ref", (), cs[0] if len(cs) == 1 else dc.name), recv.e), cls=dc)
                # the alternative is only meaningful for receivers of these classes: obligations raised inside (preconditions
                # of contract calls under a binder) are guarded by the class condition
                st.ghost.setdefault("__guards", []).append(c)
                try:
                    vals.append((c, self.call_func(st, f, args, kwargs)))
                except PyRaise:
                    pass      # this class's method raises for every receiver: no value (callers are obliged to exclude the class)
                finally:
                    st.ghost["__guards"].pop()
            if not vals:
                # no class of the receiver defines the method: python raises AttributeError at this call
                raise PyRaise(self.make_exc(st, "AttributeError", [zstr(mr.name)]))
            out = vals[-1][1]
            for c, x in reversed(vals[:-1]):
                out = self.merge(st, c, x, out)
            return out
        kind, cs, impl = self.pick(st, alts, "dispatch:" + mr.name)
        if kind == "missing":
            raise PyRaise(self.make_exc(st, "AttributeError", [zstr(mr.name)]))
        dc, node = impl
        narrowed = Z(T("ref", (), cs[0] if len(cs) == 1 else dc.name), recv.e)
        f = Func(node, dc.module, {}, f"{dc.name}.{mr.name}", self_val=narrowed, cls=dc)
        f2 = self.decorate_method(st, f, node, dc)
        if f2 is not f:
            return self.call(st, f2, args, kwargs)
        return self.call_func(st, f, args, kwargs)

    # ================================================================= constructors
    def construct(self, st, cv: ClassVal, args, kwargs):
        name = cv.name
        if cv.info is None:
            if name in BUILTIN_EXC:
                return self.make_exc(st, name, args).payload
            key = "ext:" + name
            c = self.contracts.get(key)
            if c is not None:
                return self.apply_contract(st, c, args, kwargs, key)
            if key in getattr(self, "opaque_ok", ()):
                return Opaque(name + "()")
            raise OutsideSubset(f"constructor of external class {name}")
        info = cv.info
        key = f"{info.module}:{info.name}.__init__"
        o = HeapObj("obj", info.name, {})
        o.info = info
        ref = st.alloc(o)
        init = front.lookup_method(info, "__init__")
        if init is not None:
            dc, node = init
            f = Func(node, dc.module, {}, f"{dc.name}.__init__", self_val=ref, cls=dc)
            c = self.contracts.get(f"{dc.module}:{dc.name}.__init__")
            if c is not None and not c.inline:
                self.apply_contract(st, c, [ref] + list(args), kwargs, key)
            else:
                self.run_body(st, f, [ref] + list(args), kwargs, c)
        elif any(self._is_exc(c) for c in front.mro(info)):
            o.fields["args"] = PyTuple(args)
        else:
            self.dataclass_init(st, info, o, args, kwargs)
        gi = (self.classes.get(info.name) or {}).get("ghost_init") or {}
        for gname, gexpr in gi.items():
            st.frames.append(Frame({}, info.module, "<ghost-init>"))
            try:
                o.fields[gname] = self.ev_spec(st, ast.parse(gexpr, mode="eval").body)
            finally:
                st.frames.pop()
        post = front.lookup_method(info, "__post_init__")
        if post is not None:
            dc, node = post
            self.run_body(st, Func(node, dc.module, {}, f"{dc.name}.__post_init__", self_val=ref, cls=dc), [ref], {})
        return ref

    def _is_exc(self, ci):
        return any(b in BUILTIN_EXC for b in ci.bases)

    def dataclass_init(self, st, info, o: HeapObj, args, kwargs):
        fields = []
        for c in reversed(front.mro(info)):
            for s in c.node.body:
                if isinstance(s, ast.AnnAssign) and isinstance(s.target, ast.Name):
                    fields = [f for f in fields if f[0] != s.target.id]
                    fields.append((s.target.id, s.value, c.module))
        args = list(args)
        kwargs = dict(kwargs)
        for i, (fname, default, mod) in enumerate(fields):
            if i < len(args):
                o.fields[fname] = args[i]
            elif fname in kwargs:
                o.fields[fname] = kwargs.pop(fname)
            elif default is not None:
                st.frames.append(Frame({}, mod, "<class>"))
                try:
                    o.fields[fname] = self.dataclass_default(st, default)
                finally:
                    st.frames.pop()
            else:
                raise PyRaise(self.make_exc(st, "TypeError", [zstr("missing field " + fname)]))
        if kwargs or len(args) > len(fields):
            raise PyRaise(self.make_exc(st, "TypeError", [zstr("unexpected constructor argument")]))

    def dataclass_default(self, st, default):
        if isinstance(default, ast.Call):
            fn = default.func
            nm = fn.id if isinstance(fn, ast.Name) else (fn.attr if isinstance(fn, ast.Attribute) else None)
            if nm == "field":
                for kw in default.keywords:
                    if kw.arg == "default":
                        return self.ev(st, kw.value)
                    if kw.arg == "default_factory":
                        fac = self.ev(st, kw.value)
                        return self.call(st, fac, [], {})
                return NONE
        return self.ev(st, default)
