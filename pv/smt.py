"""SMT universe: sorts, sort descriptors, value wrappers, discharge helpers."""
from __future__ import annotations
import re
import z3, re, time, subprocess, tempfile, os
from typing import Any, Dict, List, Optional, Tuple

# ---------------------------------------------------------------- sorts

Ref = z3.DeclareSort("Ref")           # immutable (value) objects of the schema tree
Flt = z3.DeclareSort("Flt")           # python float values (opaque; see spec/floats)

_dyn_src = """
(declare-datatypes ((Dyn 0)) ((
  (DInt (d_int Int)) (DBool (d_bool Bool)) (DFloat (d_flt Flt)) (DStr (d_str (Seq Int)))
  (DList (d_list (Seq Dyn))) (DDict (d_map (Array String Dyn)))
  (DNone) (DAbsent) (DRef (d_ref Ref)) (DName (d_name String)))))
(declare-const __dyn_probe Dyn)
"""
_decls: Dict[str, Any] = {}


def _init_dyn():
    s = z3.Solver()
    fs = z3.parse_smt2_string(_dyn_src + "(assert (= __dyn_probe __dyn_probe))", sorts={"Ref": Ref, "Flt": Flt})
    probe = None
    for f in fs:
        for c in f.children():
            probe = c
    return probe.sort()


Dyn = _init_dyn()


def _ctor(name):
    for i in range(Dyn.num_constructors()):
        c = Dyn.constructor(i)
        if c.name() == name:
            return i, c
    raise KeyError(name)


def dyn_ctor(name):
    c = _ctor(name)[1]
    return c() if c.arity() == 0 else c


def dyn_is(name, e):
    i, _ = _ctor(name)
    return Dyn.recognizer(i)(e)


def dyn_acc(cname, k, e):
    i, _ = _ctor(cname)
    return Dyn.accessor(i, k)(e)


Int, Bool, Str = z3.IntSort(), z3.BoolSort(), z3.StringSort()


class T:
    """Sort descriptor."""

    def __init__(self, kind: str, args: Tuple["T", ...] = (), cls: Optional[str] = None):
        self.kind, self.args, self.cls = kind, args, cls

    def __repr__(self):
        if self.kind in ("ref", "heap") and self.cls:
            return f"{self.kind}:{self.cls}"
        if self.args:
            return f"{self.kind}[{','.join(map(repr, self.args))}]"
        return self.kind

    def __eq__(self, o):
        return isinstance(o, T) and repr(self) == repr(o)

    def __hash__(self):
        return hash(repr(self))

    def z3sort(self):
        k = self.kind
        if k == "int":
            return Int
        if k == "bool":
            return Bool
        if k == "str":
            return Str
        if k == "ref":
            return Ref
        if k == "dyn":
            return Dyn
        if k == "float":
            return Flt
        if k == "char":
            return Int
        if k == "real":
            return z3.RealSort()
        if k == "seq":
            return z3.SeqSort(self.args[0].z3sort())
        if k == "tuple":
            return tuple_sort(tuple(a.z3sort() for a in self.args))[0]
        if k == "smap":
            return z3.ArraySort(Str, z3.SeqSort(Dyn))      # str -> list of values (the lists of a defaultdict-of-lists)
        raise TypeError(f"no z3 sort for {self}")

    def is_smt(self):
        return self.kind in ("int", "bool", "str", "ref", "dyn", "float", "char") or (
            self.kind == "seq" and self.args[0].is_smt()) or (self.kind == "tuple" and all(a.is_smt() for a in self.args))


_tuples = {}


def tuple_sort(sorts):
    key = tuple(str(x) for x in sorts)
    if key not in _tuples:
        _tuples[key] = z3.TupleSort("Tup_" + "_".join(k.replace(" ", "").replace("(", "").replace(")", "") for k in key), list(sorts))
    return _tuples[key]


def parse_T(s: str) -> T:
    s = s.strip()
    m = re.match(r"^(\w+)\[(.*)\]$", s)
    if m:
        head, inner = m.group(1), m.group(2)
        parts, depth, cur = [], 0, ""
        for ch in inner:
            if ch == "[":
                depth += 1
            if ch == "]":
                depth -= 1
            if ch == "," and depth == 0:
                parts.append(cur)
                cur = ""
            else:
                cur += ch
        parts.append(cur)
        return T(head, tuple(parse_T(p) for p in parts))
    m = re.match(r"^(ref|heap):([\w.]+)$", s)
    if m:
        return T(m.group(1), (), m.group(2))
    if s in ("int", "bool", "str", "dyn", "float", "none", "any", "func", "ref", "arr", "unit", "char", "real", "smap"):
        return T(s)
    # a bare class name: decided by the class table (heap or value)
    return T("class", (), s)


# ---------------------------------------------------------------- uninterpreted symbols

_funcs: Dict[str, z3.FuncDeclRef] = {}


def ufunc(name: str, *sorts) -> z3.FuncDeclRef:
    key = name
    if key in _funcs:
        f = _funcs[key]
        if f.arity() != len(sorts) - 1 or any(f.domain(i) != sorts[i] for i in range(f.arity())) or f.range() != sorts[-1]:
            raise TypeError(f"ufunc {name} redeclared with another signature")
        return f
    f = z3.Function(name, *sorts)
    _funcs[key] = f
    return f


_counter = [0]


def fresh(name: str, sort) -> z3.ExprRef:
    _counter[0] += 1
    return z3.Const(f"{name}!{_counter[0]}", sort)


cls_of = ufunc("cls_of", Ref, Str)
pow2 = ufunc("pow2", Int, Int)
bor = ufunc("bor", Int, Int, Int)
band = ufunc("band", Int, Int, Int)
str_of_int = ufunc("str_of_int", Int, Str)
nth_int = ufunc("nth.int", z3.SeqSort(Int), Int, Int)   # own indexing symbol: z3's seq.nth is unstable with arithmetic


def seq_nth(s, j):
    """own indexing symbols nth.<elem sort> (ground definitional instances are generated in pv/prep.py)"""
    if s.sort() == z3.SeqSort(Int):
        return nth_int(s, j)
    if z3.is_string(s):
        return s[j]
    es = s.sort().basis()
    nm = es.name() if es.name() != "Seq" else re.sub(r"[^A-Za-z0-9_]+", "_", str(es))
    return ufunc("nth." + nm, s.sort(), Int, es)(s, j)


def pow2_term(e):
    e = z3.simplify(e)
    if z3.is_int_value(e):
        v = e.as_long()
        if 0 <= v <= 4096:
            return z3.IntVal(2 ** v)
    return pow2(e)


def _has_free_var(e):
    if z3.is_var(e):
        return True
    return any(_has_free_var(c) for c in e.children())


# ---- fast raw traversal (bypasses the z3py wrapper objects; ~10x faster than ExprRef.children())
import ctypes
from z3 import z3core as _zc
class _Raw:
    """raw ctypes entry points (the generated wrappers add an error check per call, which dominates traversal time)"""

    def __getattr__(self, name):
        f = getattr(_zc, name).__defaults__[0].f
        setattr(self, name, f)
        return f


_lib = _Raw()
_ctx = z3.main_ctx().ref()
Z3_APP_AST, Z3_QUANTIFIER_AST, Z3_VAR_AST, Z3_NUMERAL_AST = 1, 3, 2, 0
_sym_cache = {}


def _decl_name_raw(d):
    key = _lib.Z3_get_ast_id(_ctx, _lib.Z3_func_decl_to_ast(_ctx, d))
    r = _sym_cache.get(key)
    if r is None:
        sym = _lib.Z3_get_decl_name(_ctx, d)
        if _lib.Z3_get_symbol_kind(_ctx, sym) == 0:
            r = "k!" + str(_lib.Z3_get_symbol_int(_ctx, sym))
        else:
            r = _zc.Z3_get_symbol_string(_ctx, sym)
        _sym_cache[key] = r
    return r


def raw_find(f, names, skip_quant=False, prefixes=None):
    """ExprRefs of all applications in f (a formula, or a list of formulas traversed with one shared visited set) whose
    declaration name is in `names` or starts with `prefixes`."""
    out = {}
    seen = set()
    stack = [x.as_ast() for x in f] if isinstance(f, (list, tuple)) else [f.as_ast()]
    lib, ctx = _lib, _ctx
    while stack:
        a = stack.pop()
        i = lib.Z3_get_ast_id(ctx, a)
        if i in seen:
            continue
        seen.add(i)
        k = lib.Z3_get_ast_kind(ctx, a)
        if k == Z3_APP_AST:
            app = lib.Z3_to_app(ctx, a)
            n = lib.Z3_get_app_num_args(ctx, app)
            if n:
                d = lib.Z3_get_app_decl(ctx, app)
                dn = _decl_name_raw(d)
                if dn in names or (prefixes and dn.startswith(prefixes)):
                    out[i] = a
                for j in range(n):
                    stack.append(lib.Z3_get_app_arg(ctx, app, j))
        elif k == Z3_QUANTIFIER_AST and not skip_quant:
            stack.append(lib.Z3_get_quantifier_body(ctx, a))
    return [z3.z3._to_expr_ref(a, z3.main_ctx()) for a in out.values()]


_symcache = {}


def symbols_of(f):
    """names of the uninterpreted symbols (functions and constants) occurring in f (memoised, term kept alive)"""
    i = f.get_id()
    r = _symcache.get(i)
    if r is not None:
        return r[0]
    out = set()
    seen = set()
    stack = [f.as_ast()]
    lib, ctx = _lib, _ctx
    while stack:
        a = stack.pop()
        k = lib.Z3_get_ast_id(ctx, a)
        if k in seen:
            continue
        seen.add(k)
        kind = lib.Z3_get_ast_kind(ctx, a)
        if kind == Z3_APP_AST:
            app = lib.Z3_to_app(ctx, a)
            d = lib.Z3_get_app_decl(ctx, app)
            if lib.Z3_get_decl_kind(ctx, d) == z3.Z3_OP_UNINTERPRETED:
                out.add(_decl_name_raw(d))
            for j in range(lib.Z3_get_app_num_args(ctx, app)):
                stack.append(lib.Z3_get_app_arg(ctx, app, j))
        elif kind == Z3_QUANTIFIER_AST:
            stack.append(lib.Z3_get_quantifier_body(ctx, a))
    _symcache[i] = (out, f)
    return out


def relevant(hyps, goal, rounds=3):
    """Goal-directed selection of hypotheses: symbol closure from the goal, ignoring symbols that occur almost everywhere.
    Proving from a subset of the hypotheses is sound; the full set is tried afterwards if the subset does not suffice."""
    syms = [symbols_of(h) for h in hyps]
    freq = {}
    for ss in syms:
        for x in ss:
            freq[x] = freq.get(x, 0) + 1
    n = max(1, len(hyps))
    common = {x for x, c in freq.items() if c > 0.5 * n and c > 12}
    R = set(symbols_of(goal))
    chosen = [False] * len(hyps)
    for _ in range(rounds):
        added = False
        for i, ss in enumerate(syms):
            if chosen[i]:
                continue
            key = ss - common
            if (key & R) or not key:
                chosen[i] = True
                added = True
        for i, ss in enumerate(syms):
            if chosen[i]:
                R |= (ss - common)
        if not added:
            break
    return [h for i, h in enumerate(hyps) if chosen[i]]


_p2cache = {}


def _pow2_apps(f):
    """ground pow2 applications in formula f (memoised per formula; z3 hash-conses, so ids are stable while f is alive)"""
    i = f.get_id()
    r = _p2cache.get(i)
    if r is not None:
        return r[0]
    apps = {}

    for e in raw_find(f, ("pow2",)):
        if e.num_args() == 1 and not _has_free_var(e.arg(0)):
            apps[e.get_id()] = e
    res = list(apps.values())
    _p2cache[i] = (res, f)
    return res


def pow2_axioms(terms) -> List[z3.BoolRef]:
    """Ground instances of the defining facts of pow2 for every application pow2(t) occurring in `terms`."""
    apps = {}
    for e in raw_find(list(terms), ("pow2",)):
        if e.num_args() == 1 and not _has_free_var(e.arg(0)):
            apps[e.get_id()] = e
    out = []
    for app in apps.values():
        k = app.get_id()
        ent = _p2ax.get(k)
        if ent is None:
            a = app.arg(0)
            ax = [z3.Implies(a >= 0, pow2(a) >= 1), z3.Implies(a >= 1, pow2(a) == 2 * pow2(a - 1)),
                  z3.Implies(a >= 0, pow2(a + 1) == 2 * pow2(a))]
            for i in range(0, 66):
                ax.append(z3.Implies(a == i, pow2(a) == 2 ** i))
            ent = (ax, app)        # the application is kept alive with its axioms (AST ids are recycled otherwise)
            _p2ax[k] = ent
        out += ent[0]
    out.append(pow2(z3.IntVal(0)) == 1)
    return out


_p2ax = {}


# ---------------------------------------------------------------- discharge

class Query:
    def __init__(self, name: str, hyps: List[z3.BoolRef], goal: z3.BoolRef, meta: Optional[dict] = None):
        self.name, self.hyps, self.goal, self.meta = name, hyps, goal, meta or {}


def to_smt2(hyps, goal) -> str:
    s = z3.Solver()
    for h in hyps:
        s.add(h)
    s.add(z3.Not(goal))
    return s.to_smt2()


def check(hyps: List[z3.BoolRef], goal: z3.BoolRef, timeout_ms: int = 10000, want_model: bool = True):
    """Returns (verdict, info): verdict in 'unsat' (goal proved), 'sat' (refuted), 'unknown'."""
    t0 = time.time()
    s = z3.Solver()
    s.set("timeout", timeout_ms)
    for h in hyps:
        s.add(h)
    s.add(z3.Not(goal))
    r = s.check()
    dt = time.time() - t0
    if r == z3.unsat:
        return "unsat", {"time": dt, "backend": "z3-" + z3.get_version_string()}
    if r == z3.sat:
        info = {"time": dt, "backend": "z3-" + z3.get_version_string()}
        if want_model:
            try:
                m = s.model()
                info["model"] = {str(d): str(m[d])[:200] for d in m.decls()[:80]}
            except Exception as e:  # pragma: no cover
                info["model_error"] = str(e)
        return "sat", info
    return "unknown", {"time": dt, "backend": "z3-" + z3.get_version_string(), "reason": s.reason_unknown()}


def check_external(smt2: str, which: str, timeout_s: int = 30):
    """Second opinion through a CLI solver. which: 'z3-old' (/usr/bin/z3) or 'cvc5'."""
    with tempfile.NamedTemporaryFile("w", suffix=".smt2", delete=False) as f:
        f.write(smt2)
        if "(check-sat)" not in smt2:
            f.write("\n(check-sat)\n")
        path = f.name
    try:
        if which == "z3-old":
            cmd = ["/usr/bin/z3", f"-T:{timeout_s}", path]
        else:
            cmd = ["/usr/bin/cvc5", "--strings-exp", f"--tlimit={timeout_s * 1000}", path]
        t0 = time.time()
        p = subprocess.run(cmd, capture_output=True, text=True, timeout=timeout_s + 10)
        out = (p.stdout or "").strip().split("\n")[0] if p.stdout else ""
        return (out if out in ("sat", "unsat") else "unknown"), {"time": time.time() - t0, "backend": which}
    except Exception as e:
        return "unknown", {"backend": which, "reason": str(e)}
    finally:
        os.unlink(path)
