"""Symbolic interpreter for the Python subset (see DESIGN.md 2.1).

Single-path execution with a replayed decision trace (state.Chooser); loops are cut at invariants, calls at
contracts.  Everything that cannot be handled raises OutsideSubset -> the obligations of the function are
UNDECIDED, never violated.
"""
from __future__ import annotations
import ast, z3
from typing import Any, Dict, List, Optional, Tuple
from . import front, smt
from .front import OutsideSubset, ContractError
from .smt import T, parse_T, Ref, Dyn, Flt, Int, Bool, Str
from .values import *
from .state import *

BUILTIN_EXC = {
    "BaseException": None, "Exception": "BaseException", "ValueError": "Exception", "KeyError": "LookupError",
    "IndexError": "LookupError", "LookupError": "Exception", "TypeError": "Exception", "AttributeError": "Exception",
    "AssertionError": "Exception", "NotImplementedError": "RuntimeError", "RuntimeError": "Exception",
    "FileNotFoundError": "OSError", "OSError": "Exception", "StopIteration": "Exception",
    "UnicodeDecodeError": "ValueError", "UnicodeError": "ValueError", "OverflowError": "ArithmeticError",
    "ArithmeticError": "Exception", "ZeroDivisionError": "ArithmeticError", "SystemExit": "BaseException",
    "StructError": "Exception",
    # lark (assumed hierarchy, lark 1.3.1 exceptions.py)
    "LarkError": "Exception", "UnexpectedInput": "LarkError", "UnexpectedCharacters": "UnexpectedInput",
    "UnexpectedEOF": "UnexpectedInput", "UnexpectedToken": "UnexpectedInput", "VisitError": "LarkError",
}

INLINE_MODULES = {"fcp.maybe", "fcp.result"}
IDENTITY_DECORATORS = {"v_args", "serde", "dataclass", "wraps", "beartype", "staticmethod"}


_hq_cache = {}


def has_quant(e):
    i = e.get_id()
    r = _hq_cache.get(i)
    if r is None:
        v = z3.is_quantifier(e) or any(has_quant(c) for c in e.children())
        _hq_cache[i] = (v, e)      # keep e alive: z3 recycles the ids of freed terms
        return v
    return r[0]


_qfp_cache = {}


def qf_parts(h):
    """quantifier-free consequences of a hypothesis with nested quantifiers (clauses of its skolem normal form)"""
    i = h.get_id()
    r = _qfp_cache.get(i)
    if r is None:
        from . import prep
        if z3.is_quantifier(h):
            parts = []
        else:
            parts = [x for x in prep.normalize_nested(h) if not has_quant(x)]
        r = (parts, h)
        _qfp_cache[i] = r
    return r[0]


def is_true(e):
    return z3.is_true(z3.simplify(e))


def is_false(e):
    return z3.is_false(z3.simplify(e))


def const_int(z) -> Optional[int]:
    if isinstance(z, Z) and z.t.kind in ("int",):
        s = z3.simplify(z.e)
        if z3.is_int_value(s):
            return s.as_long()
    return None


def const_str(z) -> Optional[str]:
    if isinstance(z, Z) and z.t.kind == "str":
        s = z3.simplify(z.e)
        if z3.is_string_value(s):
            return s.as_string()
    return None


def const_bool(z) -> Optional[bool]:
    if isinstance(z, Z) and z.t.kind == "bool":
        s = z3.simplify(z.e)
        if z3.is_true(s):
            return True
        if z3.is_false(s):
            return False
    return None


class RangeVal:
    def __init__(self, lo, hi):
        self.lo, self.hi = lo, hi   # z3 ints


class SpecFn:
    def __init__(self, name, node, module, pure):
        self.name, self.node, self.module, self.pure = name, node, module, pure


import os as _os
FEAS_MS = [int(x) for x in _os.environ.get("VERIF_FEAS_MS", "300,800").split(",")]


class MethodRef:
    """Unresolved method of a value object (dynamic dispatch at call time)."""

    def __init__(self, recv, name):
        self.recv, self.name = recv, name


class Interp:
    def __init__(self, contracts: Dict[str, front.Contract], classes: Dict[str, dict], specs: Dict[str, SpecFn],
                 timeout_ms=10000):
        self.contracts, self.classes, self.specs = contracts, classes, specs
        self.feas_cache: Dict[str, bool] = {}
        self.current_target: Optional[str] = None
        self.timeout_ms = timeout_ms
        self.assumed_used: set = set()
        self.called: set = set()
        self.stats = {"feas": 0}

    # ================================================================= feasibility / branching
    def feasible(self, st: State, cond) -> bool:
        c = z3.simplify(cond)
        if z3.is_true(c):
            return True
        if z3.is_false(c):
            return False
        key = str(hash(tuple(p.get_id() for p in st.pc))) + "|" + c.sexpr()
        key = key + "|" + str(len(st.pc)) + "|" + str(len(st.axioms))
        if key in self.feas_cache:
            return self.feas_cache[key]
        # keep the formulas of this key alive: z3 recycles AST ids of freed terms, which would alias cache keys
        self._feas_keepalive = getattr(self, "_feas_keepalive", [])
        self._feas_keepalive.append((list(st.pc), c))
        s0 = z3.Solver()
        s0.set("timeout", FEAS_MS[0])
        for h in st.pc:
            if not has_quant(h):
                s0.add(h)
        s0.add(c)
        self.stats["feas"] += 1
        if s0.check() == z3.unsat:
            self.feas_cache[key] = False
            return False
        s = z3.Solver()
        s.set("timeout", FEAS_MS[1])
        for h in st.pc + st.axioms:
            if not has_quant(h):     # dropping hypotheses only makes more paths feasible (sound)
                s.add(h)
            else:
                for x in qf_parts(h):
                    s.add(x)
        s.add(c)
        self.stats["feas"] += 1
        r = s.check()
        res = r != z3.unsat
        self.feas_cache[key] = res
        return res

    def branch(self, st: State, cond, label="") -> bool:
        """Decide a boolean fork; adds the chosen side to the pc."""
        c = z3.simplify(cond)
        if z3.is_true(c):
            return True
        if z3.is_false(c):
            return False
        ft, ff = self.feasible(st, c), self.feasible(st, z3.Not(c))
        if ft and not ff:
            return True
        if ff and not ft:
            return False
        if not ft and not ff:
            raise Infeasible()
        k = st.ch.choose(2, "br:" + label)
        if k == 0:
            st.assume(c)
            st.trail.append(f"{label}=T")
            return True
        st.assume(z3.Not(c))
        st.trail.append(f"{label}=F")
        return False

    def pick(self, st: State, alts: List[Tuple[Any, Any]], label=""):
        """Choose among (cond, payload) alternatives (conds exhaustive); prunes infeasible ones."""
        live = [(c, p) for c, p in alts if self.feasible(st, c)]
        if not live:
            raise Infeasible()
        k = st.ch.choose(len(live), "pick:" + label + ":" + str(len(live)))
        c, p = live[k]
        if not is_true(c):
            st.assume(c)
        return p

    # ================================================================= obligations
    def kf_regions(self):
        if not hasattr(self, "_kf"):
            import json, os
            try:
                self._kf = json.loads(os.environ.get("VERIF_KF_REGIONS", "{}"))
            except Exception:
                self._kf = {}
        return self._kf

    def oblige(self, st: State, name: str, goal, kind: str, assume_after=True, meta=None):
        if isinstance(goal, bool):
            goal = z3.BoolVal(goal)
        reg = self.kf_regions().get(name)
        if reg:
            # a known finding (committed in known_findings.json) restricts the obligation to the complement of its region;
            # the contract text itself is unchanged, and any failure outside the region is still reported
            import ast as _ast
            r = self.truthy(st, self.ev_spec(st, _ast.parse(reg, mode="eval").body))
            goal = z3.Implies(z3.Not(r), goal)
        g = z3.simplify(goal)
        m = {"trail": "/".join(st.trail[-12:]), "_splits": list(st.ghost.get("__splits", [])), "_terms": list(st.index_terms)}
        if meta:
            m.update(meta)
        st.obligations.append(Obligation(name, st.hyps(), goal, kind, m))
        if assume_after and not z3.is_true(g):
            st.assume(goal)

    # ================================================================= value helpers
    def truthy(self, st: State, v) -> z3.BoolRef:
        if isinstance(v, Z):
            k = v.t.kind
            if k == "bool":
                return v.e
            if k == "int":
                return v.e != 0
            if k in ("str", "seq"):
                return z3.Length(v.e) > 0
            if k == "ref":
                return z3.BoolVal(True)
            if k == "float":
                # python: a float is falsy exactly when it is zero (0.0 / -0.0); Flt is opaque, so this is a predicate
                return smt.ufunc("flt.nonzero", v.e.sort(), z3.BoolSort())(v.e)
            if k == "dyn":
                raise OutsideSubset("truthiness of a dynamic value")
        if v is NONE:
            return z3.BoolVal(False)
        if isinstance(v, PyTuple):
            return z3.BoolVal(len(v.items) > 0)
        if isinstance(v, HeapRef):
            o = st.obj(v)
            if o.kind in ("list", "dict"):
                return z3.BoolVal(len(o.items) > 0)
            return z3.BoolVal(True)
        if isinstance(v, Arr):
            return v.n > 0
        if isinstance(v, Union):
            return z3.Or([z3.And(c, self.truthy(st, x)) for c, x in v.alts])
        if isinstance(v, (Func, ClassVal, Builtin, MethodRef, Opaque)):
            return z3.BoolVal(True)
        raise OutsideSubset(f"truthiness of {v!r}")

    def merge(self, st, cond, a, b):
        if is_true(cond):
            return a
        if is_false(cond):
            return b
        if a is b:
            return a
        if isinstance(a, Z) and isinstance(b, Z) and a.t.kind == b.t.kind and a.e.sort() == b.e.sort():
            t = a.t if a.t == b.t else T(a.t.kind, a.t.args, a.t.cls if a.t.cls == b.t.cls else None)
            return Z(t, z3.If(cond, a.e, b.e))
        if isinstance(a, PyTuple) and isinstance(b, PyTuple) and len(a.items) == len(b.items):
            return PyTuple([self.merge(st, cond, x, y) for x, y in zip(a.items, b.items)])
        if isinstance(a, Arr) and isinstance(b, Arr):
            return Arr(z3.If(cond, a.a, b.a), z3.If(cond, a.n, b.n))
        alts = []
        for c0, v in ((cond, a), (z3.Not(cond), b)):
            if isinstance(v, Union):
                alts += [(z3.And(c0, c), x) for c, x in v.alts]
            else:
                alts.append((c0, v))
        return Union(alts)

    def spec_map_union(self, st, u, f):
        """spec mode: apply f to every alternative of a union and merge; alternatives on which f is undefined
        (a partial operation such as len(None)) contribute an unspecified value, i.e. are skipped."""
        vals = []
        for c, x in u.alts:
            try:
                vals.append((c, f(x)))
            except (PyRaise, OutsideSubset):
                continue
        if not vals:
            raise OutsideSubset("spec expression undefined on every alternative of a union")
        out = vals[-1][1]
        for c, x in reversed(vals[:-1]):
            out = self.merge(st, c, x, out)
        return out

    def force(self, st, v, label="force"):
        while isinstance(v, Union):
            if st.spec:
                raise OutsideSubset("cannot force a union in spec mode")
            v = self.pick(st, v.alts, label)
        return v

    def lift(self, v):
        """python constant -> value"""
        if isinstance(v, bool):
            return zbool(v)
        if isinstance(v, int):
            return zint(v)
        if isinstance(v, str):
            return zstr(v)
        if v is None:
            return NONE
        raise OutsideSubset(f"constant {v!r}")

    def as_int(self, st, v, what="int") -> z3.ArithRef:
        v = self.force(st, v) if not st.spec else v
        if isinstance(v, Z):
            if v.t.kind in ("int", "char"):
                return v.e
            if v.t.kind == "bool":
                return z3.If(v.e, 1, 0)
            if v.t.kind == "dyn":
                if not st.spec:
                    self.oblige(st, f"{st.frame.qualname}#side:type-int", smt.dyn_is("DInt", v.e), "side")
                return smt.dyn_acc("DInt", 0, v.e)
        if isinstance(v, Union) and st.spec:
            out = None
            for c, x in reversed(v.alts):
                e = self.as_int(st, x)
                out = e if out is None else z3.If(c, e, out)
            return out
        raise OutsideSubset(f"expected {what}, got {v!r}")

    def as_bool(self, st, v):
        return self.truthy(st, v)

    def class_model(self, name) -> Optional[dict]:
        return self.classes.get(name)

    def field_T(self, cls: str, fld: str) -> Optional[T]:
        """Declared sort of field `fld` for static class `cls` (searches the class, its bases, then subclasses)."""
        seen = []
        m = self.classes.get(cls)
        c = cls
        while m is not None:
            if fld in m.get("fields", {}):
                return self.resolve_T(parse_T(m["fields"][fld]))
            if fld in m.get("ghost", {}):
                return self.resolve_T(parse_T(m["ghost"][fld]))
            c = m.get("base")
            m = self.classes.get(c) if c else None
        found = set()
        for n, mm in self.classes.items():
            if self.model_is_sub(n, cls) and fld in mm.get("fields", {}):
                found.add(mm["fields"][fld])
        if len(found) == 1:
            return self.resolve_T(parse_T(found.pop()))
        if not found and getattr(self, "_spec_field_fallback", False):
            # spec mode: a branch that is dead for this static class still has to be well-sorted
            root = cls
            while self.classes.get(root, {}).get("base"):
                root = self.classes[root]["base"]
            for n, mm in self.classes.items():
                if self.model_is_sub(n, root) and fld in mm.get("fields", {}):
                    found.add(mm["fields"][fld])
            if len(found) == 1:
                return self.resolve_T(parse_T(found.pop()))
        return None

    def field_T_any(self, fld: str) -> Optional[T]:
        """field of an object whose static class is unknown: usable when every class model that has the field agrees on its sort"""
        found = {m["fields"][fld] for m in self.classes.values() if m.get("kind") == "value" and fld in m.get("fields", {})}
        if len(found) == 1:
            return self.resolve_T(parse_T(found.pop()))
        return None

    def model_is_sub(self, n, base) -> bool:
        while n is not None:
            if n == base:
                return True
            m = self.classes.get(n)
            n = m.get("base") if m else None
        return False

    def concrete_subclasses(self, cls: str) -> List[str]:
        return [n for n, m in self.classes.items() if self.model_is_sub(n, cls) and not m.get("abstract")]

    def resolve_T(self, t: T) -> T:
        if t.kind == "class":
            m = self.classes.get(t.cls)
            if m is None:
                raise ContractError(f"unknown class {t.cls} in sort")
            return T("heap" if m["kind"] == "heap" else "ref", (), t.cls)
        if t.args:
            return T(t.kind, tuple(self.resolve_T(a) for a in t.args), t.cls)
        return t

    def isinstance_cond(self, st, v, cname: str):
        """z3 condition for isinstance(v, cname)."""
        if isinstance(v, Z) and v.t.kind == "ref":
            subs = self.concrete_subclasses(cname)
            if v.t.cls:
                mine = self.concrete_subclasses(v.t.cls)
                if mine:
                    if all(m in subs for m in mine):
                        return z3.BoolVal(True)      # decided by the static class
                    subs = [x for x in subs if x in mine]
            if not subs:
                return z3.BoolVal(False)
            return z3.Or([smt.cls_of(v.e) == z3.StringVal(s) for s in subs])
        if isinstance(v, HeapRef):
            o = st.obj(v)
            if o.kind == "list":
                return z3.BoolVal(cname in ("list", "List"))
            if o.kind == "dict":
                return z3.BoolVal(cname in ("dict", "Dict"))
            return z3.BoolVal(self.cls_is_sub(o.cls, cname, o))
        if isinstance(v, Z):
            k = v.t.kind
            table = {"int": ("int",), "bool": ("bool", "int"), "str": ("str",), "seq": ("list",), "float": ("float",)}
            if k in table:
                return z3.BoolVal(cname in table[k])
            if k == "dyn":
                m = {"int": "DInt", "str": "DStr", "list": "DList", "dict": "DDict", "float": "DFloat", "bool": "DBool"}
                if cname in m:
                    return smt.dyn_is(m[cname], v.e)
                return z3.BoolVal(False)
        if v is NONE:
            return z3.BoolVal(False)
        if isinstance(v, PyTuple):
            return z3.BoolVal(cname == "tuple")
        if isinstance(v, Union):
            return z3.Or([z3.And(c, self.isinstance_cond(st, x, cname)) for c, x in v.alts])
        if isinstance(v, Arr):
            return z3.BoolVal(cname == "list")
        if isinstance(v, (Func, Builtin, ClassVal, Opaque, MethodRef)):
            return z3.BoolVal(False)
        raise OutsideSubset(f"isinstance on {v!r}")

    def cls_is_sub(self, cls: str, base: str, obj: Optional[HeapObj] = None) -> bool:
        if cls == base:
            return True
        if cls in BUILTIN_EXC or base in BUILTIN_EXC:
            c = cls
            while c is not None and c in BUILTIN_EXC:
                if c == base:
                    return True
                c = BUILTIN_EXC[c]
        info = getattr(obj, "info", None) if obj is not None else None
        if info is None:
            info = self.find_class_info(cls)
        if info is not None:
            for c in front.mro(info):
                if c.name == base:
                    return True
                for b in c.bases:
                    if b == base:
                        return True
                    if b in BUILTIN_EXC and self.cls_is_sub(b, base):
                        return True
        if self.model_is_sub(cls, base):
            return True
        return False

    _class_index: Dict[str, front.ClassInfo] = {}

    def find_class_info(self, cls: str) -> Optional[front.ClassInfo]:
        m = self.classes.get(cls)
        if m and "module" in m:
            try:
                return front.class_info(m["module"], m.get("pyname", cls))
            except OutsideSubset:
                return None
        for mod in INLINE_MODULES:
            ci = front.resolve_class(mod, cls)
            if ci is not None:
                return ci
        return None

    # ================================================================= conversion to SMT
    def to_z(self, st: State, v, t: T) -> Z:
        """Coerce a value to an SMT value of sort t (freezing heap objects / lists when necessary)."""
        t = self.resolve_T(t)
        if isinstance(v, Z):
            if v.t.kind == t.kind and (t.kind != "seq" or v.e.sort() == t.z3sort()):
                if t.kind == "ref" and t.cls and not v.t.cls:
                    return Z(t, v.e)
                return v
            if t.kind == "dyn":
                return Z(t, self.to_dyn(st, v))
            if t.kind == "int" and v.t.kind in ("bool", "dyn"):
                return zint(self.as_int(st, v))
            if t.kind == "bool" and v.t.kind == "int":
                return zbool(v.e != 0)
            if v.t.kind == "dyn" and t.kind == "seq" and t.args[0].kind == "dyn":
                return Z(t, smt.dyn_acc("DList", 0, v.e))
            if v.t.kind == "dyn" and t.kind == "float":
                return Z(t, smt.dyn_acc("DFloat", 0, v.e))
            if v.t.kind == "tuple" and t.kind == "ref":
                return self.tuple_as_ref(st, v, t)
            if v.t.kind == "seq" and t.kind == "seq" and v.t.args[0].kind == "tuple" and t.args[0].kind == "ref":
                raise OutsideSubset("list of tuples where a list of objects is expected")
            raise OutsideSubset(f"cannot coerce {v.t} to {t}")
        if t.kind == "dyn":
            return Z(t, self.to_dyn(st, v))
        if isinstance(v, Union):
            out = None
            for c, x in reversed(v.alts):
                try:
                    ze = self.to_z(st, x, t).e
                except OutsideSubset:
                    # an alternative that has no image in the target sort (e.g. None where a str is expected): its value is left
                    # unspecified (a fresh symbol), which can only make obligations harder to prove
                    ze = st.fresh("unspec", t.z3sort())
                out = ze if out is None else z3.If(c, ze, out)
            return Z(t, out)
        if isinstance(v, HeapRef):
            o = st.obj(v)
            if o.kind == "list" and t.kind == "seq":
                es = [self.to_z(st, x, t.args[0]).e for x in o.items]
                srt = t.z3sort()
                if not es:
                    return Z(t, z3.Empty(srt))
                us = [z3.Unit(e) for e in es]
                return Z(t, z3.Concat(*us) if len(us) > 1 else us[0])
            if o.kind == "obj" and t.kind == "ref":
                return self.freeze(st, v)
        if isinstance(v, Opaque) and t.kind == "str":
            # an unknown value used where a string is expected (e.g. pathlib's `p.name`): one fixed unknown string per value
            return Z(t, z3.Const("strof!" + v.tag, Str))
        if isinstance(v, DDList) and t.kind in ("seq", "dyn"):
            z = self.dd_seq(st, v)
            return z if t.kind == "seq" and t.args[0].kind == "dyn" else self.to_z(st, z, t)
        if isinstance(v, PyTuple) and t.kind == "ref" and all(isinstance(x, Z) and x.t.kind == "ref" for x in v.items):
            tt = T("tuple", tuple(x.t for x in v.items))
            return self.tuple_as_ref(st, self.to_z(st, v, tt), t)
        if isinstance(v, PyTuple) and t.kind == "tuple" and len(v.items) == len(t.args):
            srt, mk, accs = smt.tuple_sort(tuple(a.z3sort() for a in t.args))
            return Z(t, mk(*[self.to_z(st, x, a).e for x, a in zip(v.items, t.args)]))
        if isinstance(v, RangeVal) and t.kind == "seq":
            raise OutsideSubset("range as seq")
        raise OutsideSubset(f"cannot convert {v!r} to {t}")

    def tuple_as_ref(self, st, v: Z, t: T) -> Z:
        """A tuple used where an object of a `tuplelike` class model is expected (e.g. the (struct, field) pairs handed to a
        check): an injection into Ref whose modelled fields are the components."""
        cands = [(cn, m) for cn, m in self.classes.items() if m.get("tuplelike") and len(m["tuplelike"]) == len(v.t.args)
                 and (t.cls is None or cn == t.cls)]
        if len(cands) != 1:
            raise OutsideSubset(f"tuple {v.t} used as an object: no unique tuplelike class model")
        cn, m = cands[0]
        srt, mk, accs = smt.tuple_sort(tuple(a.z3sort() for a in v.t.args))
        inj = smt.ufunc(f"tup2ref.{cn}", srt, Ref)
        inv = smt.ufunc(f"ref2tup.{cn}", Ref, srt)
        r = inj(v.e)
        ax = [inv(r) == v.e, smt.cls_of(r) == z3.StringVal(cn)]
        for i, f in enumerate(m["tuplelike"]):
            ft = self.field_T(cn, f)
            ax.append(self.field_fn(f, ft)(r) == accs[i](v.e))
        axm = z3.And(ax)
        bs = [b for b in st.bound if self._mentions(axm, b)]
        st.axioms.append(z3.ForAll(bs, axm, patterns=[r]) if bs else axm)
        return Z(T("ref", (), cn), r)

    def freeze(self, st: State, ref: HeapRef) -> Z:
        """A heap object of a value class becomes a fresh Ref constrained field by field."""
        if ref.id in st.frozen:
            return st.frozen[ref.id]
        o = st.obj(ref)
        m = self.classes.get(o.cls)
        if m is None:
            raise OutsideSubset(f"cannot freeze object of unmodelled class {o.cls}")
        r = st.fresh("obj_" + o.cls, Ref)
        z = Z(T("ref", (), o.cls), r)
        st.frozen[ref.id] = z
        st.assume(smt.cls_of(r) == z3.StringVal(o.cls))
        for f, val in o.fields.items():
            ft = self.field_T(o.cls, f)
            if ft is None:
                continue
            self.assume_field(st, r, o.cls, f, ft, val)
        return z

    def assume_field(self, st, r, cls, f, ft: T, val):
        if ft.kind == "opt":
            isn = smt.ufunc(f"fld.{f}.isnone", Ref, Bool)(r)
            if isinstance(val, HeapRef) and st.obj(val).kind == "dict" and not st.obj(val).items:
                val = NONE        # an empty options dict carries no option: modelled like an absent one
            if isinstance(val, Union):
                val = Union([(c, (NONE if (isinstance(x, HeapRef) and st.obj(x).kind == "dict" and not st.obj(x).items) else x))
                             for c, x in val.alts])
            if val is NONE:
                st.assume(isn)
                return
            if isinstance(val, Union):
                c_none = z3.Or([c for c, x in val.alts if x is NONE] or [z3.BoolVal(False)])
                st.assume(isn == c_none)
                for c, x in val.alts:
                    if x is not NONE:
                        zx = self.to_z(st, x, ft.args[0])
                        st.assume(z3.Implies(c, self.field_fn(f, ft.args[0])(r) == zx.e))
                return
            st.assume(z3.Not(isn))
            st.assume(self.field_fn(f, ft.args[0])(r) == self.to_z(st, val, ft.args[0]).e)
            return
        if ft.kind in ("any", "func", "heap"):
            return
        if ft.kind == "ref" and ft.cls and (self.classes.get(ft.cls) or {}).get("dictlike"):
            # a plain dict stored where a modelled options dict is expected: {} is the distinguished empty options value
            def conv(x):
                if isinstance(x, HeapRef) and st.obj(x).kind == "dict" and not st.obj(x).items:
                    return self.empty_dictlike(st, ft.cls)
                return x
            val = Union([(c, conv(x)) for c, x in val.alts]) if isinstance(val, Union) else conv(val)
        st.assume(self.field_fn(f, ft)(r) == self.to_z(st, val, ft).e)

    def empty_dictlike(self, st, cls):
        e = z3.Const("empty." + cls, Ref)
        for fld, ts in (self.classes.get(cls) or {}).get("fields", {}).items():
            if ts.startswith("opt["):
                st.axioms.append(smt.ufunc(f"fld.{fld}.isnone", Ref, Bool)(e))
        st.axioms.append(smt.cls_of(e) == z3.StringVal(cls))
        return Z(T("ref", (), cls), e)

    def field_fn(self, f: str, ft: T):
        return smt.ufunc(f"fld.{f}.{ft.kind if ft.kind != 'seq' else 'seq_' + ft.args[0].kind}", Ref, ft.z3sort())

    def to_dyn(self, st, v):
        if isinstance(v, Z):
            k = v.t.kind
            if k == "dyn":
                return v.e
            if k == "int":
                return smt.dyn_ctor("DInt")(v.e)
            if k == "bool":
                return smt.dyn_ctor("DBool")(v.e)
            if k == "float":
                return smt.dyn_ctor("DFloat")(v.e)
            if k == "seq" and v.t.args[0].kind == "dyn":
                return smt.dyn_ctor("DList")(v.e)
            if k == "seq" and v.t.args[0].kind in ("char",):
                return smt.dyn_ctor("DStr")(v.e)
            if k == "ref":
                return smt.dyn_ctor("DRef")(v.e)
            if k == "str":
                return smt.dyn_ctor("DName")(v.e)
        if v is NONE:
            return smt.dyn_ctor("DNone")
        if isinstance(v, Union):
            out = None
            for c, x in reversed(v.alts):
                e = self.to_dyn(st, x)
                out = e if out is None else z3.If(c, e, out)
            return out
        if isinstance(v, HeapRef):
            o = st.obj(v)
            if o.kind == "list":
                es = [z3.Unit(self.to_dyn(st, x)) for x in o.items]
                srt = z3.SeqSort(Dyn)
                s = z3.Empty(srt) if not es else (z3.Concat(*es) if len(es) > 1 else es[0])
                return smt.dyn_ctor("DList")(s)
            if o.kind == "dict":
                m = z3.K(Str, smt.dyn_ctor("DAbsent"))
                for k, x in o.items.items():
                    if not isinstance(k, str):
                        raise OutsideSubset("non-string dict key as dyn")
                    m = z3.Store(m, z3.StringVal(k), self.to_dyn(st, x))
                return smt.dyn_ctor("DDict")(m)
        if isinstance(v, Opaque):
            # a value the engine knows nothing about (e.g. a pathlib.Path) stored in a record: an arbitrary dyn, a fresh
            # function of the comprehension binders in scope; nothing can be proved about it beyond being passed on
            n = st.ghost.setdefault("__opq_dyn", [0])
            n[0] += 1
            bs = list(getattr(st, "bound", []) or [])
            if bs:
                return smt.ufunc(f"opq.dyn!{n[0]}", *([b.sort() for b in bs] + [Dyn]))(*bs)
            return z3.Const(f"opq.dyn!{n[0]}", Dyn)
        raise OutsideSubset(f"cannot convert {v!r} to dyn")

    # ================================================================= equality
    def eq(self, st, a, b) -> z3.BoolRef:
        if isinstance(a, Union):
            return z3.Or([z3.And(c, self.eq(st, x, b)) for c, x in a.alts])
        if isinstance(b, Union):
            return z3.Or([z3.And(c, self.eq(st, a, x)) for c, x in b.alts])
        if a is NONE or b is NONE:
            if a is NONE and b is NONE:
                return z3.BoolVal(True)
            o = b if a is NONE else a
            if isinstance(o, Z) and o.t.kind == "dyn":
                return smt.dyn_is("DNone", o.e)
            return z3.BoolVal(False)
        if isinstance(a, Z) and isinstance(b, Z):
            if a.t.kind == "dyn" or b.t.kind == "dyn":
                return self.to_dyn(st, a) == self.to_dyn(st, b)
            if a.t.kind in ("int", "bool") and b.t.kind in ("int", "bool"):
                if a.t.kind == b.t.kind:
                    return a.e == b.e
                return self.as_int(st, a) == self.as_int(st, b)
            if a.e.sort() == b.e.sort():
                return a.e == b.e
            return z3.BoolVal(False)
        if isinstance(a, PyTuple) and isinstance(b, Z) and b.t.kind == "tuple":
            a, b = b, a
        if isinstance(a, Z) and a.t.kind == "tuple" and isinstance(b, PyTuple):
            if len(a.t.args) != len(b.items):
                return z3.BoolVal(False)
            srt, mk, accs = smt.tuple_sort(tuple(x.z3sort() for x in a.t.args))
            return z3.And([self.eq(st, Z(t, accs[i](a.e)), y) for i, (t, y) in enumerate(zip(a.t.args, b.items))])
        if isinstance(a, PyTuple) and isinstance(b, PyTuple):
            if len(a.items) != len(b.items):
                return z3.BoolVal(False)
            return z3.And([self.eq(st, x, y) for x, y in zip(a.items, b.items)] or [z3.BoolVal(True)])
        if isinstance(a, Arr) and isinstance(b, Arr):
            j = st.fresh("j", Int)
            return z3.And(a.n == b.n, z3.ForAll([j], z3.Implies(z3.And(0 <= j, j < a.n), a.a[j] == b.a[j])))
        if isinstance(a, HeapRef) and isinstance(b, HeapRef):
            oa, ob = st.obj(a), st.obj(b)
            if a.id == b.id:
                return z3.BoolVal(True)
            if oa.kind == "list" and ob.kind == "list":
                if len(oa.items) != len(ob.items):
                    return z3.BoolVal(False)
                return z3.And([self.eq(st, x, y) for x, y in zip(oa.items, ob.items)] or [z3.BoolVal(True)])
            if oa.kind == "dict" and ob.kind == "dict":
                if set(oa.items) != set(ob.items):
                    return z3.BoolVal(False)
                return z3.And([self.eq(st, oa.items[k], ob.items[k]) for k in oa.items] or [z3.BoolVal(True)])
            if oa.kind == "obj" and ob.kind == "obj":
                # structural equality is only used by spec-side comparisons of records
                if oa.cls != ob.cls:
                    return z3.BoolVal(False)
                ks = set(oa.fields) | set(ob.fields)
                return z3.And([self.eq(st, oa.fields.get(k, NONE), ob.fields.get(k, NONE)) for k in sorted(ks)] or [z3.BoolVal(True)])
        if isinstance(a, HeapRef) and isinstance(b, Z):
            a, b = b, a
        if isinstance(a, Z) and isinstance(b, HeapRef):
            o = st.obj(b)
            if a.t.kind == "seq" and o.kind == "list":
                return a.e == self.to_z(st, b, a.t).e
            if a.t.kind == "dyn":
                return a.e == self.to_dyn(st, b)
            if a.t.kind == "ref" and o.kind == "obj":
                return a.e == self.freeze(st, b).e
        if isinstance(a, (Func, ClassVal, Builtin)) or isinstance(b, (Func, ClassVal, Builtin)):
            return z3.BoolVal(a is b)
        if type(a) != type(b):
            return z3.BoolVal(False)
        raise OutsideSubset(f"equality of {a!r} and {b!r}")
