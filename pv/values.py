"""Engine-side value classes."""
from __future__ import annotations
import z3
from typing import Any, Dict, List, Optional
from .smt import T, Int, Bool, Str


class Z:
    """SMT-backed value."""
    __slots__ = ("t", "e")

    def __init__(self, t: T, e):
        self.t, self.e = t, e

    def __repr__(self):
        return f"Z<{self.t}>({self.e})"


class Arr:
    """python list of ints with index update: (Array Int Int, length)."""
    __slots__ = ("a", "n")

    def __init__(self, a, n):
        self.a, self.n = a, n

    def __repr__(self):
        return f"Arr({self.a},{self.n})"


class _None:
    def __repr__(self):
        return "NONE"


NONE = _None()


class PyTuple:
    def __init__(self, items):
        self.items = list(items)

    def __repr__(self):
        return f"PyTuple{self.items}"


class HeapRef:
    __slots__ = ("id",)

    def __init__(self, id):
        self.id = id

    def __repr__(self):
        return f"&{self.id}"


class HeapObj:
    """kind: 'obj' (fields), 'list' (items list), 'dict' (items dict, keys are python str/int/tuple consts)."""

    def __init__(self, kind, cls, fields=None, items=None):
        self.kind, self.cls = kind, cls
        self.fields: Dict[str, Any] = fields if fields is not None else {}
        self.items = items
        self.symbolic = False    # created from a parameter (fields lazily fresh)

    def clone(self):
        o = HeapObj(self.kind, self.cls, dict(self.fields),
                    list(self.items) if self.kind == "list" else (dict(self.items) if self.kind == "dict" else None))
        o.symbolic = self.symbolic
        return o


class DDView:
    """buses[key] of a modelled defaultdict-of-records-of-lists (see builtinsm.bi_defaultdict)"""

    def __init__(self, ref, key):
        self.ref, self.key = ref, key

    def __repr__(self):
        return f"DDView({self.ref},{self.key})"


class DDList:
    """buses[key][field]: one list of the record; append / membership / iteration act on the map field of the model"""

    def __init__(self, ref, key, field):
        self.ref, self.key, self.field = ref, key, field

    def __repr__(self):
        return f"DDList({self.ref},{self.key},{self.field})"


class Func:
    def __init__(self, node, module, env, qualname, self_val=None, cls=None):
        self.node, self.module, self.env, self.qualname, self.self_val, self.cls = node, module, env, qualname, self_val, cls

    def bind(self, self_val):
        return Func(self.node, self.module, self.env, self.qualname, self_val, self.cls)

    def __repr__(self):
        return f"Func({self.module}:{self.qualname})"


class ClassVal:
    def __init__(self, name, module=None, info=None):
        self.name, self.module, self.info = name, module, info

    def __repr__(self):
        return f"Class({self.name})"


class Builtin:
    def __init__(self, name, self_val=None):
        self.name, self.self_val = name, self_val

    def __repr__(self):
        return f"Builtin({self.name})"


class ModuleVal:
    def __init__(self, name):
        self.name = name

    def __repr__(self):
        return f"Module({self.name})"


class Union:
    """Symbolic union: list of (cond, value); conds are mutually exclusive and exhaustive under the pc."""

    def __init__(self, alts):
        self.alts = alts

    def __repr__(self):
        return f"Union({self.alts})"


class ExcVal:
    def __init__(self, cls: str, args=None, payload=None):
        self.cls, self.args, self.payload = cls, args or [], payload

    def __repr__(self):
        return f"Exc({self.cls})"


class Opaque:
    """A value the engine knows nothing about (result of an external call); only passed around."""

    def __init__(self, tag, info=None):
        self.tag, self.info = tag, info

    def __repr__(self):
        return f"Opaque({self.tag})"


def zint(v) -> Z:
    return Z(T("int"), z3.IntVal(v) if isinstance(v, int) else v)


def zbool(v) -> Z:
    return Z(T("bool"), z3.BoolVal(v) if isinstance(v, bool) else v)


def zstr(v) -> Z:
    return Z(T("str"), z3.StringVal(v) if isinstance(v, str) else v)
