"""Function-level verification: contract application at call sites, VC generation per function, discharge."""
from __future__ import annotations
import ast, z3, time, os, glob, traceback
from typing import Any, Dict, List, Optional, Tuple
from . import front, smt
from .front import OutsideSubset, ContractError, Contract, EffectMissing
from .smt import T, parse_T, Ref, Dyn, Flt, Int, Bool, Str
from .values import *
from .state import *
from .interp import *
from .execm import ExecMixin, loop_ordinals
from .evalm import EvalMixin
from .callm import CallMixin
from .builtinsm import BuiltinMixin


class Engine(Interp, ExecMixin, EvalMixin, CallMixin, BuiltinMixin):

    # ================================================================= contract application (modular call)
    def coerce_param(self, st, v, ann: Optional[str], pname: str):
        if ann is None:
            return v
        t = self.resolve_T(parse_T(ann))
        k = t.kind
        if k in ("any", "func"):
            return v
        if k == "heap":
            v = self.force(st, v) if not st.spec else v
            if isinstance(v, HeapRef):
                return v
            raise OutsideSubset(f"argument {pname}: expected heap object {t.cls}, got {v!r}")
        if k == "int":
            return zint(self.as_int(st, v))
        if k == "bool":
            return zbool(self.truthy(st, v))
        if k == "arr":
            return v if isinstance(v, Arr) else self.seq_to_arr(st, v)
        if k in ("str", "ref", "dyn", "seq", "float"):
            return self.to_z(st, v, t)
        if k == "char":
            return Z(t, self.as_int(st, v)) if not (isinstance(v, Z) and v.t.kind == "char") else v
        return v

    def bind_contract_args(self, st, c: Contract, args, kwargs):
        env = {}
        names = [p for p, _ in c.params]
        a = c.stub.args
        defaults = [None] * (len(names) - len(a.defaults)) + list(a.defaults)
        kwargs = dict(kwargs)
        for i, (p, ann) in enumerate(c.params):
            if i < len(args):
                v = args[i]
            elif p in kwargs:
                v = kwargs.pop(p)
            elif defaults[i] is not None:
                v = self.lift(ast.literal_eval(defaults[i]))
            else:
                raise PyRaise(self.make_exc(st, "TypeError", [zstr("missing argument " + p)]))
            env[p] = self.coerce_param(st, v, ann, p)
        if len(args) > len(names) or kwargs:
            if a.kwarg is not None:
                env[a.kwarg.arg] = st.alloc(HeapObj("dict", "dict", items=dict(kwargs)))
            else:
                raise PyRaise(self.make_exc(st, "TypeError", [zstr("bad call")]))
        elif a.kwarg is not None:
            env[a.kwarg.arg] = st.alloc(HeapObj("dict", "dict", items={}))
        return env

    def contract_frame(self, c: Contract, env, key):
        module, _, qual = key.partition(":")
        mod = module
        try:
            front.module_path(module)
        except OutsideSubset:
            mod = None
        fr = Frame(env, mod, qual)
        fr.contract = c
        fr.spec_module = None
        return fr

    def apply_contract(self, st: State, c: Contract, args, kwargs, key):
        self.called.add(key)
        if c.kind == "assumed":
            self.assumed_used.add(key)
        caller = st.frames[0].qualname if st.frames else "?"
        if st.spec == 0 and st.frames:
            cc0 = getattr(st.frame, "contract", None)
            for loc, expr in ((cc0.options.get("ghost_before") or {}).get(key.split(":")[-1], []) if cc0 is not None else []):
                # ghost assignment placed by the caller's contract just before this call
                o = self.ev_spec(st, loc.value)
                st.obj(o).fields[loc.attr] = self.ev_spec(st, expr)
        if st.spec == 0 and st.frames:
            cc1 = getattr(st.frame, "contract", None)
            for le in ((cc1.options.get("lemma_before") or {}).get(key.split(":")[-1], []) if cc1 is not None else []):
                done_key = ("lemma_before", key, ast.unparse(le))
                if done_key in st.ghost.setdefault("__lb", set()):
                    continue
                st.ghost["__lb"].add(done_key)
                self.ev(st, le)         # ghost lemma call placed by the caller's contract just before this call
        env = self.bind_contract_args(st, c, args, kwargs)
        if c.fresh:
            cfr = st.frame
            cc = getattr(cfr, "contract", None)
            short0 = key.split(":")[-1]
            gargs = ((cc.options.get("ghost_args") or {}).get(short0) if cc is not None else None) or {}
            if not gargs:
                # the callee is reached through a decorator executed from source (e.g. @catch's wrapper frame, which has no
                # contract of its own): the ghost arguments are those of the nearest enclosing function under contract
                for fr_up in reversed(st.frames[:-1]):
                    cu = getattr(fr_up, "contract", None)
                    if cu is not None:
                        gargs = (cu.options.get("ghost_args") or {}).get(short0) or {}
                        if gargs:
                            cfr = fr_up
                        break
            for nm, ts in c.fresh:
                if nm in gargs and st.spec == 0:
                    extra = {"it": zint(st.ghost["__it"][-1])} if st.ghost.get("__it") else None
                    val = self.eval_lambda_spec(st, gargs[nm], [], cfr, extra)
                    env[nm] = self.coerce_param(st, val, ts, nm)
                else:
                    env[nm] = self.fresh_of(st, parse_T(ts), "ghost_" + nm)
        fr = self.contract_frame(c, env, key)
        short = key.split(":")[-1]
        spec_mode = st.spec > 0
        st.frames.append(fr)
        saved_old = (st.old_heap, st.old_env)
        try:
            if not spec_mode:
                for i, r in enumerate(c.requires):
                    g = self.truthy(st, self.ev_spec(st, r))
                    self.oblige(st, f"{self.current_target}#pre-of-call[{short}.{i}]", g, "pre")
                if c.decreases is not None and (key in getattr(self, "recursion_group", ()) or key == self.current_target):
                    self.check_decreases(st, c, short)
            st.old_heap = st.snapshot_heap()
            st.old_env = dict(env)
            conds = []
            for cls, cond in c.raises:
                conds.append((cls, self.truthy(st, self.ev_spec(st, cond))))
            alts = []
            nd = []
            for cls in c.may_raise:
                b = st.fresh("may_raise_" + cls, Bool)
                nd.append(b)
                alts.append((b, ("raise", cls)))
            normal = z3.And([z3.Not(cc) for _, cc in conds] + [z3.Not(b) for b in nd]) if (conds or nd) else z3.BoolVal(True)
            mri = [self.truthy(st, self.ev_spec(st, e)) for e in (c.options.get("must_raise_if") or [])]
            if mri:
                normal = z3.And(normal, z3.Not(z3.Or(mri)))
            nri = [self.truthy(st, self.ev_spec(st, e)) for e in (c.options.get("no_raise_if") or [])]
            if nri:
                alts = [(z3.And(a, z3.Not(z3.Or(nri))), p) for a, p in alts]
            alts = [(normal, ("normal", None))] + [(cc, ("raise", cls)) for cls, cc in conds] + alts
            if spec_mode:
                outcome = ("normal", None)
            else:
                outcome = self.pick(st, alts, "call:" + short)
            for m in c.modifies:
                self.havoc_location(st, m, fr)
            if outcome[0] == "normal":
                if st.bound:
                    return self.apply_under_binder(st, c, env, short, conds, nd, mri)
                res = self.fresh_of(st, parse_T(c.returns), "ret_" + short.replace(".", "_")) if c.returns else NONE
                env["result" if "result" not in [p for p, _ in c.params] else "result_"] = res
                st.ghost.setdefault("effects", []).append(("call:" + short, "call:" + short, list(args), dict(kwargs), res))
                for e in c.ensures:
                    st.assume(self.truthy(st, self.ev_spec(st, e)))
                if not spec_mode and len(st.frames) >= 2:
                    # ghost lemma calls the caller's contract places right after a normal return of this callee
                    cfr2 = st.frames[-2]
                    cc2 = getattr(cfr2, "contract", None)
                    las = ((cc2.options.get("lemma_after") or {}).get(short, []) if cc2 is not None else [])
                    if las:
                        st.frames.pop()
                        try:
                            extra_it = st.ghost["__it"][-1] if st.ghost.get("__it") else None
                            for le in las:
                                if extra_it is not None:
                                    cfr2.env["it"] = zint(extra_it)
                                cfr2.env["RESULT"] = res
                                try:
                                    self.ev(st, le)
                                finally:
                                    cfr2.env.pop("RESULT", None)
                                    if extra_it is not None:
                                        cfr2.env.pop("it", None)
                        finally:
                            st.frames.append(fr)
                return res
            for e in c.ensures_raise:
                st.assume(self.truthy(st, self.ev_spec(st, e)))
            st.ghost.setdefault("effects", []).append(("raise:" + short, "raise:" + short, list(args), dict(kwargs), None))
            raise PyRaise(self.make_exc(st, outcome[1], []))
        finally:
            st.old_heap, st.old_env = saved_old
            st.frames.pop()

    def apply_under_binder(self, st, c: Contract, env, short, conds, nd, mri):
        """A contract-cut call inside a comprehension body (the element variable is bound): the result is a skolem
        function of the bound variables and the postconditions are assumed closed over them.  Only callees that cannot
        raise and have no precondition and no frame are admitted (nothing would check those under the binder)."""
        if nd or mri or c.modifies:
            raise OutsideSubset(f"call of {short} under a binder: the callee has may_raise/must_raise/modifies clauses")
        in_code = bool(st.ghost.get("__comp_code")) and st.ghost["__comp_code"][-1]
        guards = list(st.ghost.get("__guards") or [])
        if (c.requires or conds) and in_code:
            # the precondition must hold, and no raise condition may hold, for every element (of the receiver classes this
            # alternative is for): handed to the enclosing comprehension as an obligation per index
            pre = z3.And([self.truthy(st, self.ev_spec(st, r)) for r in c.requires] + [z3.Not(cc) for _, cc in conds])
            if guards:
                pre = z3.Implies(z3.And(guards), pre)
            st.ghost.setdefault("__pending_pre", []).append((st.bound[-1], pre, short))
        if conds and all(z3.is_true(z3.simplify(cc)) for _, cc in conds):
            raise PyRaise(self.make_exc(st, conds[0][0], []))       # always raises: no value for this alternative
        rt = self.resolve_T(parse_T(c.returns)) if c.returns else None
        if rt is None or not rt.is_smt():
            raise OutsideSubset(f"call of {short} under a binder: result sort {c.returns} is not an SMT sort")
        st.fresh_n += 1
        bs = list(st.bound)
        fn = smt.ufunc(f"ret.{short}!{st.fresh_n}", *[b.sort() for b in bs], rt.z3sort())
        res = Z(rt, fn(*bs))
        env["result" if "result" not in [p for p, _ in c.params] else "result_"] = res
        for e in c.ensures:
            g = self.truthy(st, self.ev_spec(st, e))
            if guards:
                g = z3.Implies(z3.And(guards), g)
            # handed to the enclosing comprehension, which states it per index of its source sequence (seq_map_core)
            st.ghost.setdefault("__pending_binder", []).append((bs[-1], g))
        return res

    def check_decreases(self, st, c: Contract, short):
        cur = getattr(self, "current_rank", None)
        if cur is None:
            return
        new = self.ev_spec(st, c.decreases)
        newl = [self.as_int(st, x) for x in (new.items if isinstance(new, PyTuple) else [new])]
        curl = cur
        lex = z3.BoolVal(False)
        for i in range(min(len(newl), len(curl)) - 1, -1, -1):
            lex = z3.Or(z3.And(newl[i] < curl[i], newl[i] >= 0), z3.And(newl[i] == curl[i], lex))
        self.oblige(st, f"{self.current_target}#decreases[{short}]", lex, "decreases")

    # ================================================================= verifying one function
    def verify(self, target: str, max_paths=4000) -> dict:
        c = self.contracts[target]
        module, _, qual = target.partition(":")
        rep = {"target": target, "kind": c.kind, "paths": 0, "exits": 0, "undecided": [], "obligations": {},
               "canary": None, "notes": [], "error": None, "source_sha": None, "file": None}
        t0 = time.time()
        try:
            if c.kind in ("lemma", "theorem"):
                node = c.stub
                module_for_body = None
                rep["file"] = os.path.relpath(c.file, front.VERIF)
            else:
                mod = front.load_module(module)
                node = front.find_def(mod, qual)
                rep["file"] = os.path.relpath(mod.path, front.REPO)
                rep["source_sha"] = front.func_source_hash(node)
                real_params = [a.arg for a in node.args.posonlyargs + node.args.args]
                stub_params = [p for p, _ in c.params]
                if real_params != stub_params:
                    raise OutsideSubset(f"anchor-mismatch: parameters of {target} are {real_params}, contract says {stub_params}")
        except OutsideSubset as e:
            rep["undecided"].append(str(e))
            rep["wall"] = time.time() - t0
            return rep
        self.current_target = target
        pending = [[]]
        obls: List[Obligation] = []
        exit_hyps = []
        while pending:
            if rep["paths"] >= max_paths:
                rep["undecided"].append(f"path budget {max_paths} exhausted")
                break
            prefix = pending.pop()
            ch = Chooser(prefix)
            st = State(ch)
            rep["paths"] += 1
            try:
                self.run_path(st, c, node, module, qual, exit_hyps)
            except (Infeasible, PathEnd):
                pass
            except OutsideSubset as e:
                msg = str(e) + " [path: " + "/".join(st.trail[-14:]) + "]"
                if msg not in rep["undecided"]:
                    rep["undecided"].append(msg)
            except ContractError as e:
                rep["error"] = f"contract error: {e}"
            except RecursionError:
                rep["undecided"].append("recursion limit in the symbolic interpreter")
            pending += ch.alts
            obls += st.obligations
            for nt in st.notes:
                if nt not in rep["notes"]:
                    rep["notes"].append(nt)
        rep["exits"] = len(exit_hyps)
        rep["_obls"] = obls
        rep["_exit_hyps"] = exit_hyps
        rep["symexec_s"] = time.time() - t0
        return rep

    def param_values(self, st, c: Contract):
        env = {}
        for p, ann in c.params:
            if ann is None:
                raise ContractError(f"{c.target}: parameter {p} needs a sort annotation")
            env[p] = self.fresh_of(st, parse_T(ann), p)
        for nm, ts in c.fresh:
            env[nm] = self.fresh_of(st, parse_T(ts), nm)
        return env

    def run_path(self, st: State, c: Contract, node, module, qual, exit_hyps):
        wobj = HeapObj("obj", "World", {"written": Z(T("seq", (T("ref"),)), z3.Empty(z3.SeqSort(Ref))),
                                         "gen_calls": Z(T("seq", (T("ref"),)), z3.Empty(z3.SeqSort(Ref)))})
        st.ghost["__world"] = st.alloc(wobj)
        wobj.fields["written"] = Z(T("seq", (T("ref"),)), st.fresh("world.written", z3.SeqSort(Ref)))
        wobj.fields["gen_calls"] = Z(T("seq", (T("ref"),)), st.fresh("world.gen_calls", z3.SeqSort(Ref)))
        env = self.param_values(st, c)
        is_ghost = c.kind in ("lemma", "theorem")
        fr0 = self.contract_frame(c, env, c.target)
        if is_ghost:
            fr0.module = c.options.get("module")
        st.frames.append(fr0)
        # class tags of ref-typed parameters
        for p, ann in c.params:
            v = env[p]
            if isinstance(v, Z) and v.t.kind == "ref" and v.t.cls:
                subs = self.concrete_subclasses(v.t.cls)
                if subs:
                    st.assume(z3.Or([smt.cls_of(v.e) == z3.StringVal(s) for s in subs]))
        for r in c.requires:
            st.assume(self.truthy(st, self.ev_spec(st, r)))
        splits = []
        for e, rng in c.splits:
            term = self.as_int(st, self.ev_spec(st, e))
            r = ast.literal_eval(rng)
            lo, hi = (0, r) if isinstance(r, int) else r
            splits.append((term, lo, hi))
        st.ghost["__splits"] = splits
        st.old_heap = st.snapshot_heap()
        st.old_env = dict(env)
        st.fn_old_heap = st.old_heap
        for h in c.hints:
            # hint(term): an instantiation term offered to every quantified hypothesis of matching sort (soundness-neutral)
            fr_h = Frame(dict(env), c.options.get("module"), qual)
            fr_h.contract = c
            st.frames.append(fr_h)
            try:
                hv = self.ev_spec(st, h)
            finally:
                st.frames.pop()
            if isinstance(hv, Z):
                st.index_terms.append(hv.e)
        entry_ids = list(st.heap.keys())
        if c.decreases is not None:
            d = self.ev_spec(st, c.decreases)
            self.current_rank = [self.as_int(st, x) for x in (d.items if isinstance(d, PyTuple) else [d])]
        else:
            self.current_rank = None
        raise_conds = [(cls, self.truthy(st, self.ev_spec(st, cond))) for cls, cond in c.raises]
        no_raise = [self.truthy(st, self.ev_spec(st, e)) for e in (c.options.get("no_raise_if") or [])]
        must_raise = [self.truthy(st, self.ev_spec(st, e)) for e in (c.options.get("must_raise_if") or [])]
        self.ghost_env = {nm: env[nm] for nm, _ in c.fresh}
        self.body_contract_obj = c
        args = [env[p] for p, _ in c.params]
        raised = None
        res = NONE
        try:
            if is_ghost:
                f = Func(node, "lemmas." + os.path.basename(c.file)[:-3], {}, qual)
                body = node.body[c.options.get("body_start", 0):]
                fr = Frame(dict(env), c.options.get("module"), qual)
                for nm, tgt in (c.options.get("imports") or {}).items():
                    m_, _, a_ = tgt.partition(":")
                    st.frames.append(Frame({}, m_, "<import>"))
                    try:
                        fr.env[nm] = self.global_lookup(st, m_, a_)
                    finally:
                        st.frames.pop()
                fr.contract = c
                fr.loop_map = loop_ordinals(node)
                fr.spec_module = None
                st.frames.append(fr)
                try:
                    try:
                        self.exec_block(st, body)
                    except ReturnSig as r:
                        res = r.value
                finally:
                    st.frames.pop()
            else:
                cls_info = None
                if "." in qual:
                    try:
                        cls_info = front.class_info(module, qual.split(".")[0])
                    except OutsideSubset:
                        cls_info = None
                f = Func(node, module, self.closure_env(st, module, qual), qual, cls=cls_info)
                fv = f
                for dec in reversed(node.decorator_list):
                    nm = dec.id if isinstance(dec, ast.Name) else (dec.func.id if isinstance(dec, ast.Call) and isinstance(dec.func, ast.Name) else
                                                                  (dec.attr if isinstance(dec, ast.Attribute) else None))
                    if nm in IDENTITY_DECORATORS or nm in ("property", "register"):
                        continue
                    st.frames.append(Frame({}, module, "<module>"))
                    try:
                        dv = self.ev(st, dec)
                        fv = self.call(st, dv, [fv], {})
                    finally:
                        st.frames.pop()
                self.body_func = None
                if fv is f:
                    res = self.run_body(st, f, args, {}, c)
                else:
                    self.body_func = f
                    self.body_contract = c
                    res = self.call(st, fv, args, {})
        except PyRaise as pr:
            raised = pr.exc
        # ------- exit handling in the contract frame (parameters keep their entry values)
        short = c.target
        if raised is None:
            st.trail.append("return")
            for loc, expr in c.ghost_sets:
                val = self.ev_spec(st, expr)
                o = self.ev_spec(st, loc.value)
                if not isinstance(o, HeapRef):
                    raise ContractError("ghost_set target must be a heap field")
                st.obj(o).fields[loc.attr] = val
            if c.returns:
                res = self.coerce_result(st, res, c.returns)
            env["result" if "result" not in [p for p, _ in c.params] else "result_"] = res
            for le in c.options.get("use_lemma") or []:
                self.ev(st, le)          # ghost call at exit: the lemma's requires are obligations, its ensures are assumed
            env["result" if "result" not in [p for p, _ in c.params] else "result_"] = res
            for i, e in enumerate(c.options.get("ensures_effects") or []):
                try:
                    g = self.truthy(st, self.ev_spec(st, e))
                except EffectMissing as em:
                    g = z3.BoolVal(False)      # the clause talks about a call that did not happen on this path
                    st.trail.append(str(em)[:120])
                self.oblige(st, f"{short}#effects[{i}]", g, "post", assume_after=False, meta={"clause": ast.unparse(e)})
            for i, (cls, cc) in enumerate(raise_conds):
                self.oblige(st, f"{short}#raises-iff[{cls}.{i}]", z3.Not(cc), "raises", assume_after=False)
            for i, g in enumerate(must_raise):
                self.oblige(st, f"{short}#must-raise-if[{i}]", z3.Not(g), "raises", assume_after=False)
            for i, e in enumerate(c.ensures):
                # postconditions are proved in order; an earlier one may be used for a later one
                self.oblige(st, f"{short}#post[{i}]", self.truthy(st, self.ev_spec(st, e)), "post", assume_after=True,
                            meta={"clause": ast.unparse(e)})
        else:
            st.trail.append("raise " + raised.cls)
            obj = st.obj(raised.payload) if isinstance(raised.payload, HeapRef) else None
            match = [cc for cls, cc in raise_conds if self.cls_is_sub(raised.cls, cls, obj)]
            may = any(self.cls_is_sub(raised.cls, cls, obj) for cls in c.may_raise)
            if not may:
                goal = z3.Or(match) if match else z3.BoolVal(False)
                self.oblige(st, f"{short}#raises[{raised.cls}]", goal, "raises", assume_after=False,
                            meta={"exception": raised.cls})
            for i, g in enumerate(no_raise):
                self.oblige(st, f"{short}#no-raise-if[{i}]", z3.Not(g), "raises", assume_after=False, meta={"exception": raised.cls})
            for i, e in enumerate(c.ensures_raise):
                self.oblige(st, f"{short}#post-raise[{i}]", self.truthy(st, self.ev_spec(st, e)), "post", assume_after=False)
        # ------- frame
        mods = set()
        for m in c.modifies:
            o = self.ev_spec(st, m.value)
            if isinstance(o, HeapRef):
                mods.add((o.id, m.attr))
        for i in entry_ids:
            old_o, new_o = st.fn_old_heap[i], st.heap[i]
            if new_o.kind != "obj":
                if new_o.kind == "list" and (old_o.items != new_o.items):
                    self.oblige(st, f"{short}#frame[list]", self.eq(st, HeapRef(i), HeapRef(i)) if False else z3.BoolVal(
                        len(old_o.items) == len(new_o.items) and all(a is b for a, b in zip(old_o.items, new_o.items))), "frame", assume_after=False)
                continue
            for fld in set(old_o.fields) | set(new_o.fields):
                if (i, fld) in mods:
                    continue
                a, b = old_o.fields.get(fld), new_o.fields.get(fld)
                if a is b:
                    continue
                if a is None or b is None:
                    g = z3.BoolVal(False)
                else:
                    try:
                        g = self.eq(st, a, b)
                    except OutsideSubset:
                        g = z3.BoolVal(False)
                self.oblige(st, f"{short}#frame[{new_o.cls}.{fld}]", g, "frame", assume_after=False)
        exit_hyps.append(st.hyps())
        st.frames.pop()

    def closure_env(self, st, module, qual):
        """A nested function (a check registered inside register_checks, ...) may read and update locals of the enclosing
        function; those survive between calls, so at the entry of any one call they hold ARBITRARY values of the kind of their
        initialiser.  Only free names that the enclosing function assigns are bound; anything else stays unresolved."""
        parts = qual.split(".")
        if len(parts) < 2:
            return {}
        try:
            mod = front.load_module(module)
            outer = front.find_def(mod, ".".join(parts[:-1]))
            inner = front.find_def(mod, qual)
        except OutsideSubset:
            return {}
        if not isinstance(outer, ast.FunctionDef):
            return {}
        own = {a.arg for a in inner.args.args} | set()
        for n in ast.walk(inner):
            if isinstance(n, ast.Name) and isinstance(n.ctx, ast.Store):
                own.add(n.id)
            if isinstance(n, ast.comprehension):
                for t in ast.walk(n.target):
                    if isinstance(t, ast.Name):
                        own.add(t.id)
        used = {n.id for n in ast.walk(inner) if isinstance(n, ast.Name) and isinstance(n.ctx, ast.Load)} - own
        env = {}
        for s_ in outer.body:
            tgt, val = None, None
            if isinstance(s_, ast.Assign) and len(s_.targets) == 1 and isinstance(s_.targets[0], ast.Name):
                tgt, val = s_.targets[0].id, s_.value
            elif isinstance(s_, ast.AnnAssign) and isinstance(s_.target, ast.Name) and s_.value is not None:
                tgt, val = s_.target.id, s_.value
            if tgt is None or tgt not in used:
                continue
            if isinstance(val, ast.List):
                env[tgt] = Z(T("seq", (T("dyn"),)), st.fresh("closure_" + tgt, z3.SeqSort(Dyn)))
            elif isinstance(val, ast.Dict):
                env[tgt] = Z(T("dyn"), st.fresh("closure_" + tgt, Dyn))
            elif isinstance(val, ast.Constant) and isinstance(val.value, bool):
                env[tgt] = zbool(st.fresh("closure_" + tgt, Bool))
            elif isinstance(val, ast.Constant) and isinstance(val.value, int):
                env[tgt] = zint(st.fresh("closure_" + tgt, Int))
            elif isinstance(val, ast.Constant) and val.value is None:
                b = st.fresh("closure_" + tgt + "_isnone", Bool)
                env[tgt] = Union([(b, NONE), (z3.Not(b), Z(T("dyn"), st.fresh("closure_" + tgt, Dyn)))])
        return env

    def coerce_result(self, st, res, ann):
        t = self.resolve_T(parse_T(ann))
        if t.kind in ("int", "bool", "str", "dyn", "seq", "float", "ref"):
            if isinstance(res, Arr) and t.kind == "seq":
                return res
            return self.to_z(st, res, t)
        return res


# ===================================================================== loading

def load_all(contract_dir=None, spec_dir=None):
    contract_dir = contract_dir or os.path.join(front.VERIF, "contracts")
    spec_dir = spec_dir or os.path.join(front.VERIF, "spec")
    contracts: Dict[str, Contract] = {}
    classes: Dict[str, dict] = {}
    inline_ok = set()
    opaque_ok = set()
    effect_names = set()
    for d in (contract_dir, os.path.join(front.VERIF, "lemmas"), os.path.join(front.VERIF, "theorems")):
        for path in sorted(glob.glob(os.path.join(d, "*.py"))):
            cs, tables = front.parse_contract_file(path)
            for c in cs:
                if c.target in contracts:
                    raise ContractError(f"duplicate contract for {c.target}")
                contracts[c.target] = c
            for name, m in (tables.get("CLASSES") or {}).items():
                classes[name] = m
            for k in tables.get("INLINE") or []:
                inline_ok.add(k)
            for k in tables.get("OPAQUE") or []:
                opaque_ok.add(k)
            for k in tables.get("EFFECTS") or []:
                effect_names.add(k)
            for k in tables.get("OPAQUE_METHODS") or []:
                opaque_ok.add("method:" + k)
    specs: Dict[str, SpecFn] = {}
    for path in sorted(glob.glob(os.path.join(spec_dir, "*.py"))):
        modname = "spec." + os.path.basename(path)[:-3]
        if modname == "spec.prelude":
            continue
        src = open(path, encoding="utf-8").read()
        tree = ast.parse(src)
        for n in tree.body:
            if isinstance(n, ast.FunctionDef):
                decs = [d.id for d in n.decorator_list if isinstance(d, ast.Name)]
                if "native_only" in decs:
                    continue
                specs[n.name] = SpecFn(n.name, n, modname, "pure" in decs)
    eng = Engine(contracts, classes, specs)
    eng.inline_ok = inline_ok
    eng.opaque_ok = opaque_ok
    eng.effect_names = effect_names
    eng.auto_lemma_index = {}
    for c in contracts.values():
        if c.kind in ("lemma", "assumed") and c.options.get("auto_for"):
            eng.auto_lemma_index.setdefault(c.options["auto_for"], []).append(c)
    return eng


# ===================================================================== discharge

def specialize(formulas, cases):
    """Substitute the split terms by their case values and fold pow2(numeral)."""
    if not cases:
        return formulas
    subs = []
    for c in cases:
        term, val = c.arg(0), c.arg(1)
        subs.append((term, val))
        # X % m == i : write X as m*Q + i (Q fresh), so that X / m and X fold to linear terms over Q
        if z3.is_app(term) and term.decl().kind() == z3.Z3_OP_MOD and z3.is_int_value(term.arg(1)) and z3.is_const(term.arg(0)):
            X, m = term.arg(0), term.arg(1)
            Q = z3.Int(str(X) + "!div" + str(m))
            subs.append((X / m, Q))
            subs.append((X, m * Q + val))
    out = [z3.simplify(z3.substitute(f, *subs)) for f in formulas]
    apps = {}

    def walk(e, seen):
        if e.get_id() in seen:
            return
        seen.add(e.get_id())
        if z3.is_app(e):
            if e.decl().name() == "pow2" and z3.is_int_value(e.arg(0)) and 0 <= e.arg(0).as_long() <= 4096:
                apps[e.get_id()] = (e, z3.IntVal(2 ** e.arg(0).as_long()))
            elif e.decl().name() in ("bor", "band") and e.num_args() == 2 and z3.is_int_value(e.arg(0)) and z3.is_int_value(e.arg(1)) \
                    and e.arg(0).as_long() >= 0 and e.arg(1).as_long() >= 0:
                # bitwise or/and of two non-negative numerals (python ints): folded once a case split made the operands concrete
                a_, b_ = e.arg(0).as_long(), e.arg(1).as_long()
                apps[e.get_id()] = (e, z3.IntVal((a_ | b_) if e.decl().name() == "bor" else (a_ & b_)))
            for c in e.children():
                walk(c, seen)
        elif z3.is_quantifier(e):
            walk(e.body(), seen)

    for _round in range(12):
        apps.clear()
        seen = set()
        for f in out:
            walk(f, seen)
        if not apps:
            break
        out = [z3.simplify(z3.substitute(f, *apps.values())) for f in out]
    return out


def solve_piece(hyps_qf, hyps_full, goal, timeout_ms, cases=(), hyps_small=None):
    """-> (verdict, info). QF instantiated attempt first; the full (quantified) query decides sat/unknown."""
    tsum = 0.0
    if hyps_small is not None and not cases:
        from . import prep as _prep0
        hs = list(hyps_small) + _prep0.nth_axioms(list(hyps_small) + [goal])
        hs = hs + smt.pow2_axioms(hs + [goal])
        v0, info0 = smt.check(hs, goal, 6000, want_model=False)
        tsum += info0.get("time", 0)
        if v0 == "unsat":
            info0["mode"] = "qf-goal-directed"
            return v0, info0
    if cases:
        n = len(hyps_qf)
        sp = specialize(list(hyps_qf) + [goal], cases)
        hyps_qf, goal2 = sp[:-1] + list(cases), sp[-1]
        hyps_full = specialize(list(hyps_full), cases) + list(cases)
        goal = goal2
    from . import prep as _prep
    nx = _prep.nth_axioms(list(hyps_qf) + [goal])
    hyps_qf = list(hyps_qf) + nx
    hyps_full = list(hyps_full) + nx
    hq = hyps_qf + smt.pow2_axioms(hyps_qf + [goal])
    if len(hq) > 120:
        # goal-directed subsets first (sound: fewer hypotheses), growing the symbol closure
        for rounds in (1,):
            sub = smt.relevant(hq, goal, rounds)
            if len(sub) >= 0.8 * len(hq):
                break
            v0, info0 = smt.check(sub, goal, 2500, want_model=False)
            tsum += info0.get("time", 0)
            if v0 == "unsat":
                info0["time"] = tsum
                info0["mode"] = f"qf-relevant-{rounds}"
                return v0, info0
    v, info = smt.check(hq, goal, max(8000, timeout_ms // 2), want_model=False)
    tsum += info.get("time", 0)
    if v == "unsat":
        info["time"] = tsum
        info["mode"] = "qf-instantiated"
        return v, info
    if len(hyps_full) == len(hyps_qf) and v == "sat":
        v, info = smt.check(hq, goal, timeout_ms, want_model=True)
        info["mode"] = "qf"
        info["time"] = tsum + info.get("time", 0)
        return v, info
    hf = hyps_full + smt.pow2_axioms(hyps_full + [goal])
    v2, info2 = smt.check(hf, goal, timeout_ms)
    tsum += info2.get("time", 0)
    info2["mode"] = "full"
    if v2 == "unknown":
        try:
            s2 = smt.to_smt2(hf, goal)
            for which in ("z3-old", "cvc5"):
                v3, info3 = smt.check_external(s2, which, max(5, timeout_ms // 1000))
                tsum += info3.get("time", 0)
                if v3 == "unsat":
                    info3["time"] = tsum
                    info3["mode"] = "full"
                    return "unsat", info3
        except Exception:
            pass
    info2["time"] = tsum
    return v2, info2


def discharge(eng: Engine, rep: dict, timeout_ms=10000, second_opinion=False) -> dict:
    """Groups obligations by name, runs the solver, fills rep['obligations'] with plain data."""
    from . import prep
    obls: List[Obligation] = rep.pop("_obls", [])
    exit_hyps = rep.pop("_exit_hyps", [])
    groups: Dict[str, List[Obligation]] = {}
    for o in obls:
        groups.setdefault(o.name, []).append(o)
    out = {}
    total_q = 0
    t_solver = 0.0
    for name, os_ in groups.items():
        verdict, worst, queries, tsum, backend = "proved", None, 0, 0.0, set()
        tmax = 0.0
        seen = set()
        for o in os_:
            g = z3.simplify(o.goal)
            if z3.is_true(g):
                continue
            key = (tuple(h.get_id() for h in o.hyps), g.get_id())
            if key in seen:
                continue
            seen.add(key)
            splits = o.meta.get("_splits") or []
            cases = [[]]
            for term, lo, hi in splits:
                cases = [cs + [term == i] for cs in cases for i in range(lo, hi)]
                # completeness of the split is itself proved
                v, info = smt.check(o.hyps, z3.And(term >= lo, term < hi), timeout_ms, want_model=False)
                queries += 1
                tsum += info.get("time", 0)
                if v != "unsat":
                    verdict = "unknown" if verdict == "proved" else verdict
                    worst = {"trail": o.meta.get("trail"), "reason": "split range not provable", "goal": str(term)}
            try:
                pieces = prep.prepare(o.hyps, o.goal, extra_terms=o.meta.get("_terms") or ())
            except Exception as e:  # pragma: no cover
                pieces = [{"goal": o.goal, "hyps_qf": o.hyps, "hyps_full": o.hyps}]
            stop = False
            for pc_ in pieces:
                for cs in cases:
                    eg0 = prep.ext_goal(pc_["goal"])
                    v, info = None, {}
                    if eg0 is not None:
                        # an equality of sequences: the extensionality rule (equal lengths, equal elements) is tried first,
                        # the solver's own sequence reasoning only afterwards
                        ok0 = True
                        for p2 in prep.prepare(pc_["hyps_full"], eg0, extra_terms=o.meta.get("_terms") or ()):
                            v2, info2 = solve_piece(p2["hyps_qf"], p2["hyps_full"], p2["goal"], min(timeout_ms, 20000), cs, p2.get("hyps_small"))
                            queries += 1
                            tsum += info2.get("time", 0)
                            tmax = max(tmax, info2.get("time", 0))
                            backend.add(info2.get("backend", "?"))
                            if v2 != "unsat":
                                ok0 = False
                                break
                        if ok0:
                            continue
                    v, info = solve_piece(pc_["hyps_qf"], pc_["hyps_full"], pc_["goal"], timeout_ms, cs, pc_.get("hyps_small"))
                    queries += 1
                    tsum += info.get("time", 0)
                    tmax = max(tmax, info.get("time", 0))
                    backend.add(info.get("backend", "?"))
                    if v != "unsat" and eg0 is None:
                        eg = prep.ext_goal(pc_["goal"])
                        if eg is not None:
                            ok = True
                            for p2 in prep.prepare(pc_["hyps_full"], eg, extra_terms=o.meta.get("_terms") or ()):
                                v2, info2 = solve_piece(p2["hyps_qf"], p2["hyps_full"], p2["goal"], timeout_ms, cs)
                                queries += 1
                                tsum += info2.get("time", 0)
                                if v2 != "unsat":
                                    ok = False
                                    break
                            if ok:
                                v = "unsat"
                    if v == "unsat":
                        continue
                    if v == "sat":
                        verdict = "refuted"
                        worst = {"trail": o.meta.get("trail"), "model": info.get("model"), "goal": str(pc_["goal"])[:600],
                                 "case": [str(c) for c in cs], "meta": {k: str(x)[:300] for k, x in o.meta.items() if not k.startswith("_")}}
                        stop = True
                        break
                    if verdict == "proved":
                        verdict = "unknown"
                        worst = {"trail": o.meta.get("trail"), "reason": info.get("reason"), "goal": str(pc_["goal"])[:600], "case": [str(c) for c in cs]}
                if stop:
                    break
            if stop:
                break
        out[name] = {"kind": os_[0].kind, "verdict": verdict, "queries": queries, "instances": len(os_), "solver_s": round(tsum, 3),
                     "max_piece_s": round(tmax, 3),
                     "backend": sorted(backend), "detail": worst}
        total_q += queries
        t_solver += tsum
    # canary: at least one exit path must be satisfiable (contradictory requires/invariants/assumed contracts would make all unsat)
    canary = "no-exit"
    for hy in exit_hyps:
        v, info = smt.check(hy + smt.pow2_axioms(hy), z3.BoolVal(False), 4000, want_model=False)
        if v == "sat":
            canary = "sat"
            break
        if v == "unknown":
            # quantifiers left the solver undecided: at least the quantifier-free part must be satisfiable
            qf = [h for h in hy if not prep._has_var_or_quant(h)]
            v2, _ = smt.check(qf + smt.pow2_axioms(qf), z3.BoolVal(False), 4000, want_model=False)
            if v2 == "sat":
                canary = "unknown" if canary != "sat" else canary
            elif v2 == "unsat" and canary == "no-exit":
                canary = "unsat"
            else:
                canary = "unknown"
        elif canary == "no-exit":
            canary = "unsat"
    rep["canary"] = canary
    rep["obligations"] = out
    rep["queries"] = total_q
    rep["solver_s"] = round(t_solver, 3)
    return rep
