"""C06 / C19: contracts on the real C run-time (can_signal_parser.c) and on really generated device code, discharged as
bit-vector queries over the terms pv/cfront.py extracts from clang's AST.  Exit codes as ./vcheck."""
from __future__ import annotations
import os, sys, json, time, subprocess, tempfile, shutil, hashlib, random
import z3
from . import cfront
from .cfront import IV, FV, Ptr, TU, explore, merged_ret, CUnsupported

VERIF = os.path.dirname(os.path.dirname(os.path.abspath(__file__)))
REPO = os.environ.get("VERIF_REPO", "/repo")
TEMPL = os.path.join(REPO, "plugins/fcp_can_c/templates")
VENV_PY = "/venv/bin/python"

INTS = [("uint8_t", 8, False), ("uint16_t", 16, False), ("uint32_t", 32, False), ("uint64_t", 64, False),
        ("int8_t", 8, True), ("int16_t", 16, True), ("int32_t", 32, True), ("int64_t", 64, True)]


def mask64(length64):
    """2^length - 1 as a 64-bit vector, for 0 <= length <= 64"""
    return z3.If(length64 >= 64, z3.BitVecVal(2 ** 64 - 1, 64), (z3.BitVecVal(1, 64) << length64) - 1)


def prove(name, hyps, goal, out, timeout=30000):
    s = z3.Solver()
    s.set("timeout", timeout)
    for h in hyps:
        s.add(h)
    s.add(z3.Not(goal))
    t0 = time.time()
    r = s.check()
    rec = {"obligation": name, "verdict": "proved" if r == z3.unsat else ("refuted" if r == z3.sat else "unknown"), "solver_s": round(time.time() - t0, 3),
           "backend": "z3-" + z3.get_version_string() + " (QF_BV/FP)"}
    if r == z3.sat:
        m = s.model()
        rec["model"] = {str(d): str(m[d]) for d in m.decls()}
    out.append(rec)
    return rec


def runtime_obligations(tu, out):
    """Part 1: every scalar carrier, symbolic start/length, scale 1.0, offset 0.0, little endian."""
    for tname, w, signed in INTS:
        v = z3.BitVec("v", w)
        start, length = z3.BitVec("start", 32), z3.BitVec("length", 32)
        s64, l64 = z3.ZeroExt(32, start), z3.ZeroExt(32, length)
        pre = [z3.UGE(length, 1), z3.ULE(length, w), z3.ULE(s64 + l64, 64)]
        ext = z3.SignExt(64 - w, v) if signed and w < 64 else (z3.ZeroExt(64 - w, v) if w < 64 else v)

        def enc_args(ex, v=v, w=w, signed=signed):
            return [IV(v, w, signed), IV(start, 32, False), IV(length, 32, False), FV(1.0, 32), FV(0.0, 32), IV(z3.BitVecVal(0, 1), 1, False)]

        try:
            paths = explore(tu, f"can_encode_signal_from_{tname}", enc_args)
            enc = merged_ret(paths).e
            prove(f"can_signal_parser.c:can_encode_signal_from_{tname}#post[word == (v & mask(length)) << start]", pre,
                  enc == ((ext & mask64(l64)) << s64), out)
            data = z3.BitVec("data", 64)

            def dec_args(ex, data=data):
                fr = ex.zero_of("CanFrame")
                fr["data"] = IV(data, 64, False)
                ex.frames.append({"__msg": fr})
                return [Ptr(("var", 0, "__msg")), IV(start, 32, False), IV(length, 32, False), FV(1.0, 32), FV(0.0, 32),
                        IV(z3.BitVecVal(0, 1), 1, False)]

            dpaths = explore(tu, f"can_decode_signal_as_{tname}", dec_args)
            dec = merged_ret(dpaths).e
            field = z3.LShR(data, s64) & mask64(l64)
            if signed:
                sign = z3.Extract(0, 0, z3.LShR(field, l64 - 1)) == 1
                full = z3.If(sign, field | ~mask64(l64), field)
            else:
                full = field
            spec = z3.Extract(w - 1, 0, full)
            prove(f"can_signal_parser.c:can_decode_signal_as_{tname}#post[value == {'sign' if signed else 'zero'}-extension of the field]",
                  pre, dec == spec, out)
            # round trip through a frame whose other bits are arbitrary
            other = z3.BitVec("other", 64)
            inrange = (z3.And(ext >= -(z3.BitVecVal(1, 64) << (l64 - 1)), ext < (z3.BitVecVal(1, 64) << (l64 - 1))) if signed
                       else z3.ULE(ext, mask64(l64)))
            if signed and w == 64:
                inrange = z3.If(l64 == 64, z3.BoolVal(True), inrange)
            frame_word = (other & ~(mask64(l64) << s64)) | ((ext & mask64(l64)) << s64)
            dec_rt = z3.substitute(dec, (data, frame_word))
            prove(f"can_signal_parser.c:{tname}#roundtrip[decode(frame | encode(v)) == v for in-range v]", pre + [inrange], dec_rt == v, out)
        except CUnsupported as e:
            out.append({"obligation": f"can_signal_parser.c:{tname}", "verdict": "unknown", "reason": "outside-subset: " + str(e)})


def runtime_float_obligations(tu, out):
    """float / double carriers: symbolic start (length = width of the type), scale 1.0, offset 0.0, little endian; NaN excluded
    (payloads are not tracked by the FP theory)"""
    for tname, w in (("float", 32), ("double", 64)):
        srt = z3.Float32() if w == 32 else z3.Float64()
        v = z3.FP("fv", srt)
        start = z3.BitVec("start", 32)
        s64 = z3.ZeroExt(32, start)
        length = z3.BitVecVal(w, 32)
        pre = [z3.ULE(s64 + w, 64), z3.Not(z3.fpIsNaN(v))]
        bits = z3.fpToIEEEBV(v)
        b64 = z3.ZeroExt(64 - w, bits) if w < 64 else bits
        try:
            def enc_args(ex, v=v, w=w):
                return [FV(v, w), IV(start, 32, False), IV(length, 32, False), FV(1.0, 32), FV(0.0, 32), IV(z3.BitVecVal(0, 1), 1, False)]
            paths = explore(tu, f"can_encode_signal_from_{tname}", enc_args)
            enc = merged_ret(paths).e
            prove(f"can_signal_parser.c:can_encode_signal_from_{tname}#post[word == IEEE image << start]", pre, enc == (b64 << s64), out)
            data = z3.BitVec("data", 64)

            def dec_args(ex, data=data):
                fr = ex.zero_of("CanFrame")
                fr["data"] = IV(data, 64, False)
                ex.frames.append({"__msg": fr})
                return [Ptr(("var", 0, "__msg")), IV(start, 32, False), IV(length, 32, False), FV(1.0, 32), FV(0.0, 32),
                        IV(z3.BitVecVal(0, 1), 1, False)]
            dpaths = explore(tu, f"can_decode_signal_as_{tname}", dec_args)
            if len(dpaths) != 1:
                raise CUnsupported("decode has symbolic branches")
            dec = dpaths[0]["ret"]
            field = z3.Extract(w - 1, 0, z3.LShR(data, s64))
            spec = z3.fpBVToFP(field, srt)
            prove(f"can_signal_parser.c:can_decode_signal_as_{tname}#post[value == IEEE value of the field]",
                  [z3.ULE(s64 + w, 64), z3.Not(z3.fpIsNaN(spec))], z3.fpEQ(dec.term(), spec), out)
        except CUnsupported as e:
            out.append({"obligation": f"can_signal_parser.c:{tname}", "verdict": "unknown", "reason": "outside-subset: " + str(e)})


def gen_family(seed, tier):
    """schemas of the C generator's advertised subset (flat structs of 1-64 bit integers and enums bound to CAN)"""
    fam = [
        ("basic", 'struct Pedals { acc_pos @0: u8, brake_pos @1: u8, }\nimpl can for Pedals { id: 10, device: "ecu", period: 15, }\n'
                  'struct Shutdown { error @0: u8, }\nimpl can for Shutdown { id: 11, device: "ecu", period: 20, }\n'
                  'struct Button { press @0: u8, }\nimpl can for Button { id: 12, device: "ecu", period: -1, }\n'),
        ("mixed", 'struct M { a @0: u8, b @1: i16, c @2: u32, d @3: i8, }\nimpl can for M { id: 100, device: "ecu", period: 1, }\n'),
        ("wide", 'struct W { a @0: u64, }\nimpl can for W { id: 2047, device: "ecu", period: 100, }\n'
                 'struct X { a @0: i32, b @1: u16, c @2: u16, }\nimpl can for X { id: 1, device: "ecu", }\n'),
        ("order", 'struct O { z @2: u16, x @0: u8, y @1: i8, }\nimpl can for O { id: 7, device: "ecu", period: 2147483647, }\n'),
        ("narrow", 'struct N { a @0: u3, b @1: i12, c @2: u1, d @3: i33, }\nimpl can for N { id: 9, device: "ecu", period: 3, }\n'),
        ("floats2", 'struct H { p @0: u8, x @1: f32, }\nimpl can for H { id: 22, device: "ecu", }\n'),
        ("floats3", 'struct K { p @0: u3, x @1: f32, q @2: i5, }\nimpl can for K { id: 23, device: "ecu", }\n'),
        ("floats", 'struct F { x @0: f32, y @1: u8, }\nimpl can for F { id: 20, device: "ecu", period: 10, }\n'
                   'struct G { d @0: f64, }\nimpl can for G { id: 21, device: "ecu", }\n'),
        ("enum", 'enum E { A = 0, B = 1, C = 2, }\nstruct S { p @0: u8, e @1: E, q @2: u8, }\nimpl can for S { id: 5, device: "ecu", period: 5, }\n'),
    ]
    if tier == "thorough":
        rnd = random.Random(seed)
        for k in range(8):
            fields = []
            total = 0
            for i in range(rnd.randrange(1, 6)):
                w = rnd.choice([8, 16, 32])
                if total + w > 64:
                    break
                total += w
                fields.append(f"f{i} @{i}: {rnd.choice('ui')}{w},")
            fam.append((f"rnd{k}", f'struct R{k} {{ {" ".join(fields)} }}\nimpl can for R{k} {{ id: {rnd.randrange(1, 2047)}, device: "ecu", '
                                   f'period: {rnd.choice([1, 7, 1000, -1])}, }}\n'))
    return fam


GEN_SCRIPT = r'''
import sys, json, pathlib
from fcp.parser import get_fcp_from_string
from fcp.error import Logger
from fcp.encoding import make_encoder, PackedEncoderContext
from fcp_can_c import Generator
from fcp_can_c.can_c_writer import pascal_to_snake
src, out = sys.argv[1], sys.argv[2]
f = get_fcp_from_string('version: "3"\n' + src, Logger({})).unwrap()
files = Generator().generate(f, {"output": out})
for r in files:
    p = pathlib.Path(r["path"]); p.parent.mkdir(parents=True, exist_ok=True); p.write_text(r["contents"])
enc = make_encoder("packed", f, PackedEncoderContext().with_unroll_arrays(True))
msgs = []
for i in f.get_matching_impls("can"):
    e = enc.generate(i)
    msgs.append({"name": i.name, "snake": pascal_to_snake(i.name), "id": i.fields.get("id"), "period": i.fields.get("period", -1),
                 "device": i.fields.get("device", "global"),
                 "bits": e[-1].bitstart + e[-1].bitlength,
                 "pieces": [{"name": v.name.replace("::", "_"), "start": v.bitstart, "len": v.bitlength,
                             "signed": v.type.name.startswith("i") if hasattr(v.type, "name") else False,
                             "type": getattr(v.type, "name", "?")} for v in e]})
print(json.dumps({"files": [str(r["path"]) for r in files], "messages": msgs}))
'''


def generate(src, out_dir):
    env = dict(os.environ)
    env["PYTHONPATH"] = os.pathsep.join([os.path.join(REPO, "src"), os.path.join(REPO, "plugins/fcp_can_c")])
    p = subprocess.run([VENV_PY, "-c", GEN_SCRIPT, src, out_dir], capture_output=True, text=True, env=env, timeout=120)
    if p.returncode != 0:
        return None, p.stderr[-1500:]
    return json.loads(p.stdout.strip().split("\n")[-1]), None


def field_ext(v: IV):
    return z3.SignExt(64 - v.w, v.e) if v.s and v.w < 64 else (z3.ZeroExt(64 - v.w, v.e) if v.w < 64 else v.e)


def generated_obligations(name, src, out, samples, scratch):
    d = os.path.join(scratch, name)
    info, err = generate(src, d)
    if info is None:
        out.append({"obligation": f"gen[{name}]#generator-runs", "verdict": "refuted", "reason": err, "schema": src})
        return None
    out.append({"obligation": f"gen[{name}]#generator-runs", "verdict": "proved", "solver_s": 0})
    cfiles = [f for f in info["files"] if f.endswith(".c")]
    # the generated C compiles (syntax + types) with the real compiler
    bad = []
    for f in cfiles:
        p = subprocess.run(["gcc", "-fsyntax-only", "-Wall", "-I", d, f], capture_output=True, text=True)
        if p.returncode != 0:
            bad.append(p.stderr[:600])
    out.append({"obligation": f"gen[{name}]#compiles", "verdict": "proved" if not bad else "refuted", "reason": bad[:1], "schema": src})
    if bad:
        return None
    tu = TU(cfiles, [d])
    for m in info["messages"]:
        sn = m["snake"]
        pas = m["name"]
        dev = m["device"]

        def enc_args(ex, pas=pas):
            ex.frames.append({"__m": ex.fresh_record("CanMsg" + pas, "m")})
            return [Ptr(("var", 0, "__m"))]

        try:
            paths = explore(tu, f"can_encode_msg_{sn}", enc_args)
            if len(paths) != 1:
                raise CUnsupported("encode has symbolic branches")
            fr = paths[0]["ret"]
            msg = paths[0]["ex"].frames[0]["__m"] if paths[0]["ex"].frames else None
            # rebuild the symbolic message (same constant names) to state the spec
            ex0 = cfront.CExec(tu)
            mrec = ex0.fresh_record("CanMsg" + pas, "m")
            word = z3.BitVecVal(0, 64)
            notnan = []
            for pc_ in m["pieces"]:
                fv = mrec.get(pc_["name"])
                if isinstance(fv, FV):
                    # IEEE-754 image of the value (NaN payloads are not tracked: NaN is excluded)
                    bits = z3.fpToIEEEBV(fv.term())
                    notnan.append(z3.Not(z3.fpIsNaN(fv.term())))
                    e64 = z3.ZeroExt(64 - bits.size(), bits) if bits.size() < 64 else bits
                    word = word | ((e64 & z3.BitVecVal(2 ** pc_["len"] - 1, 64)) << pc_["start"])
                    continue
                if not isinstance(fv, IV):
                    raise CUnsupported(f"field {pc_['name']} has no carrier model ({pc_['type']})")
                word = word | ((field_ext(fv) & z3.BitVecVal(2 ** pc_["len"] - 1, 64)) << pc_["start"])
            prove(f"gen[{name}]:can_encode_msg_{sn}#post[frame.id == {m['id']}]", [], fr["id"].e == (m["id"] & 0x7FF), out)
            prove(f"gen[{name}]:can_encode_msg_{sn}#post[frame.dlc == ceil(bits/8)]", [], fr["dlc"].e == ((m["bits"] + 7) // 8), out)
            prove(f"gen[{name}]:can_encode_msg_{sn}#post[frame.data == layout packing]", notnan, fr["data"].e == word, out)
            # decode(encode(v)) == v for in-range field values
            data = fr["data"].e

            def dec_args(ex, data=data):
                f0 = ex.zero_of("CanFrame")
                f0["data"] = IV(data, 64, False)
                ex.frames.append({"__f": f0})
                return [Ptr(("var", 0, "__f"))]

            dpaths = explore(tu, f"can_decode_msg_{sn}", dec_args)
            rng = list(notnan)
            for pc_ in m["pieces"]:
                fv = mrec[pc_["name"]]
                if isinstance(fv, FV):
                    continue
                e64 = field_ext(fv)
                if pc_["signed"]:
                    rng += [e64 >= -(2 ** (pc_["len"] - 1)), e64 < 2 ** (pc_["len"] - 1)]
                else:
                    rng += [z3.ULE(e64, 2 ** pc_["len"] - 1)] if pc_["len"] < 64 else []
            for pth in dpaths:
                res = pth["ret"]
                goal = z3.And([(z3.fpEQ(res[pc_["name"]].term(), mrec[pc_["name"]].term()) if isinstance(mrec[pc_["name"]], FV)
                                else res[pc_["name"]].e == mrec[pc_["name"]].e) for pc_ in m["pieces"]])
                prove(f"gen[{name}]:can_decode_msg_{sn}#roundtrip[decode(encode(v)) == v]", rng + pth["pc"], goal, out)
            if len(samples) < 4:
                samples.append({"schema": src.strip()[:200], "message": pas, "layout": m["pieces"], "frame_id": m["id"], "bits": m["bits"]})
        except CUnsupported as e:
            out.append({"obligation": f"gen[{name}]:{sn}", "verdict": "unknown", "reason": "outside-subset: " + str(e)})
        mine = [o for o in out if o["obligation"].startswith(f"gen[{name}]:") and (o["obligation"].endswith(":" + sn) or f"_msg_{sn}#" in o["obligation"])
                and o["verdict"] != "proved"]
        if mine:
            try:
                found = c_search_generated(d, info, m, src)
            except Exception as e:      # the stand-in must never decide anything by crashing
                found = {"error": f"{type(e).__name__}: {e}"}
            if found and found.get("reproduced"):
                for o in mine:
                    o["concrete"] = found
                    if o["verdict"] == "unknown":
                        o["verdict"] = "refuted"
                        o["reason"] = (o.get("reason") or "") + " | concrete failing input found on the compiled program"
    return tu, info


SENTINEL0 = 1000003


def with_sentinel_periods(src):
    """the same schema with the period of the i-th CAN binding replaced by the literal SENTINEL0 + 2*i"""
    import re
    k = [0]

    def rep(m):
        body = re.sub(r"period\s*:\s*-?\d+\s*,?", "", m.group(2))
        r = f"{m.group(1)}{body} period: {SENTINEL0 + 2 * k[0]}, }}"
        k[0] += 1
        return r
    return re.sub(r"(impl can for \w+ \{)([^}]*)\}", rep, src)


def scheduler_obligations(name, src, out, samples, scratch, symbolic=False):
    if symbolic:
        src = with_sentinel_periods(src)
        name = name + "/any-period"
    d = os.path.join(scratch, name.replace("/", "_"))
    info, err = generate(src, d)
    if info is None:
        out.append({"obligation": f"gen[{name}]#generator-runs", "verdict": "refuted", "reason": err})
        return
    cfiles = [f for f in info["files"] if f.endswith(".c")]
    tu = TU(cfiles, [d])
    devs = sorted({m["device"] for m in info["messages"]})
    for dev in devs:
        msgs = [m for m in info["messages"] if m["device"] == dev]
        fname = f"can_send_{dev}_msgs_scheduled"
        if fname not in tu.funcs:
            out.append({"obligation": f"gen[{name}]:{fname}", "verdict": "unknown", "reason": "scheduler not found in the generated code"})
            continue
        k = len(msgs)
        last_call = z3.BitVec("last_call_t", 32)
        last_send = [z3.BitVec(f"last_send_t_{i}", 32) for i in range(k)]
        tm = z3.BitVec("time", 32)
        pas_dev = "CanDevice" + "".join(x.capitalize() for x in dev.split("_"))
        init = {(fname, "last_call_t"): IV(last_call, 32, False), (fname, "last_send_t"): [IV(x, 32, False) for x in last_send]}

        def args(ex, pas_dev=pas_dev):
            ex.frames.append({"__dev": ex.fresh_record(pas_dev, "dev")})
            return [Ptr(("var", 0, "__dev")), IV(tm, 32, False), ("__callback__", "send_can_func")]

        lit, ppre = None, []
        if symbolic:
            # the #define'd period of each message is an arbitrary int >= -1 (the literal in the header is a sentinel that the
            # symbolic executor reads as the constant P_i): one proof per program shape covers every period
            lit = {}
            for m in msgs:
                Pi = z3.BitVec(f"period_{m['snake']}", 32)
                lit[int(m["period"])] = IV(Pi, 32, True)
                ppre.append(Pi >= -1)
                m["_P"] = Pi
        try:
            paths = explore(tu, fname, args, static_init=init, literal_subst=lit)
            # expected frames: the encoder applied to the device's current value of each message
            exp = []
            for m in msgs:
                def eargs(ex, m=m, pas_dev=pas_dev):
                    ex.frames.append({"__dev": ex.fresh_record(pas_dev, "dev")})
                    return [Ptr((("var", 0, "__dev"), "field", m["snake"]))]
                ep = explore(tu, f"can_encode_msg_{m['snake']}", eargs)
                exp.append(ep[0]["ret"])
            conds = []
            for i, m in enumerate(msgs):
                P = m["period"]
                if symbolic:
                    conds.append(z3.And(m["_P"] != -1, z3.UGE(tm - last_send[i], m["_P"])))
                    continue
                conds.append(z3.BoolVal(False) if P == -1 else z3.UGE(tm - last_send[i], z3.BitVecVal(P & 0xFFFFFFFF, 32)))
            total = z3.BoolVal(False)
            for pth in paths:
                pc = z3.And(pth["pc"]) if pth["pc"] else z3.BoolVal(True)
                total = z3.Or(total, pc)
                sent = pth["effects"]
                st_call = pth["statics"].get((fname, "last_call_t"), IV(last_call, 32, False))
                st_send = pth["statics"].get((fname, "last_send_t"), [IV(x, 32, False) for x in last_send])
                # which messages were sent on this path, in order: identify by frame id
                ids = []
                for (_cb, a) in sent:
                    fid = z3.simplify(a[0]["id"].e)
                    ids.append(fid.as_long() if z3.is_bv_value(fid) else None)
                exp_ids = [m["id"] & 0x7FF for m in msgs]
                sent_idx = []
                ok_order = True
                pos = 0
                for fid in ids:
                    while pos < k and exp_ids[pos] != fid:
                        pos += 1
                    if pos >= k:
                        ok_order = False
                        break
                    sent_idx.append(pos)
                    pos += 1
                same_time = tm == last_call
                goal_parts = []
                if not ok_order:
                    goal_parts.append(z3.BoolVal(False))
                # if time == last_call_t: nothing sent, state unchanged
                goal_parts.append(z3.Implies(same_time, z3.And([z3.BoolVal(len(sent) == 0), st_call.e == last_call]
                                                                + [st_send[i].e == last_send[i] for i in range(k)])))
                per = [st_call.e == tm]
                for i in range(k):
                    was = i in sent_idx
                    per.append(conds[i] if was else z3.Not(conds[i]))
                    per.append(st_send[i].e == (tm if was else last_send[i]))
                for j, i in enumerate(sent_idx):
                    fr = sent[j][1][0]
                    per.append(z3.And(fr["id"].e == exp[i]["id"].e, fr["dlc"].e == exp[i]["dlc"].e, fr["data"].e == exp[i]["data"].e))
                goal_parts.append(z3.Implies(z3.Not(same_time), z3.And(per)))
                prove(f"gen[{name}]:{fname}#one-step[sent exactly when due; frames = encoding of the device value; state updated]",
                      ppre + pth["pc"], z3.And(goal_parts), out)
            prove(f"gen[{name}]:{fname}#paths-exhaustive", ppre, total, out)
            # consequence for histories: two transmissions of message i are at least P_i apart (wrapping distance), -1 never sends
            if len(samples) < 3:
                samples.append({"device": dev, "messages": [(m["name"], m["period"]) for m in msgs], "paths": len(paths)})
        except CUnsupported as e:
            out.append({"obligation": f"gen[{name}]:{fname}", "verdict": "unknown", "reason": "outside-subset: " + str(e)})


def c_search_generated(d, info, m, src):
    """Bounded stand-in used ONLY to look for a concrete failing input when the symbolic proof of a generated message is
    refuted or undecided: compile the generated program with gcc and compare encode/decode on boundary values with the
    layout packing.  -> None (nothing found) or a dict describing the failing input."""
    import struct as _st
    pas, sn = m["name"], m["snake"]
    dev = m["device"]
    pieces = m["pieces"]
    cands = []
    for pc_ in pieces:
        L = pc_["len"]
        if pc_["type"] == "f32":
            cands.append([0.0, 1.5, -2.25, 3.0e38, 1.0e-40])
        elif pc_["type"] == "f64":
            cands.append([0.0, 1.5, -2.25, 1.0e308, 5e-324])
        elif pc_["signed"]:
            cands.append([0, -1, 2 ** (L - 1) - 1, -(2 ** (L - 1)), 1])
        else:
            cands.append([0, 2 ** L - 1, 1, 2 ** (L - 1), (0xA5A5A5A5A5A5A5A5 & (2 ** L - 1))])
    vectors = [[c[k % len(c)] for c in cands] for k in range(5)]
    for i in range(len(pieces)):                 # one field at its extreme, the others zero: isolates overlap/shift bugs
        for x in cands[i][1:4]:
            vectors.append([x if j == i else 0 for j in range(len(pieces))])

    def lit(pc_, x):
        if pc_["type"] == "f32":
            return f"{x!r}f" if "e" in repr(x) or "." in repr(x) else f"{x}.0f"
        if pc_["type"] == "f64":
            return repr(x)
        return f"((int64_t){x}LL)" if pc_["signed"] else f"{x}ULL"

    body = []
    for vec in vectors:
        sets = " ".join(f"m.{pc_['name']} = {lit(pc_, x)};" for pc_, x in zip(pieces, vec))
        prints = []
        for pc_ in pieces:
            if pc_["type"] == "f32":
                prints.append(f"{{ uint32_t b; float f = r.{pc_['name']}; memcpy(&b, &f, 4); printf(\" %llu\", (unsigned long long)b); }}")
            elif pc_["type"] == "f64":
                prints.append(f"{{ uint64_t b; double f = r.{pc_['name']}; memcpy(&b, &f, 8); printf(\" %llu\", (unsigned long long)b); }}")
            else:
                prints.append(f"printf(\" %lld\", (long long)r.{pc_['name']});")
        body.append(f"{{ CanMsg{pas} m; memset(&m, 0, sizeof m); {sets} CanFrame f = can_encode_msg_{sn}(&m); uint64_t w; memcpy(&w, f.data, 8); "
                    f"printf(\"%u %u %llu\", (unsigned)f.id, (unsigned)f.dlc, (unsigned long long)w); CanMsg{pas} r = can_decode_msg_{sn}(&f); "
                    + " ".join(prints) + " printf(\"\\n\"); }")
    hsrc = ('#include <stdio.h>\n#include <string.h>\n#include <stdint.h>\n#include <stdbool.h>\n#include "%s_can.h"\nint main(void){\n%s\nreturn 0; }\n'
            % (dev, "\n".join(body)))
    hp = os.path.join(d, f"harness_{sn}.c")
    open(hp, "w").write(hsrc)
    exe = os.path.join(d, f"harness_{sn}")
    cfiles = [f for f in info["files"] if f.endswith(".c")]
    p = subprocess.run(["gcc", "-O0", "-w", "-I", d, hp] + cfiles + ["-o", exe], capture_output=True, text=True)
    if p.returncode != 0:
        return {"error": "harness does not compile: " + p.stderr[:300]}
    r = subprocess.run([exe], capture_output=True, text=True, timeout=30)
    lines = r.stdout.strip().split("\n")
    for vec, ln in zip(vectors, lines):
        got = [int(x) for x in ln.split()]
        word = 0
        expdec = []
        for pc_, x in zip(pieces, vec):
            L = pc_["len"]
            if pc_["type"] == "f32":
                bits = _st.unpack("<I", _st.pack("<f", x))[0]
                expdec.append(bits)
            elif pc_["type"] == "f64":
                bits = _st.unpack("<Q", _st.pack("<d", x))[0]
                expdec.append(bits)
            else:
                bits = x & (2 ** L - 1)
                expdec.append(x)
            word |= (bits & (2 ** L - 1)) << pc_["start"]
        exp = [m["id"] & 0x7FF, (m["bits"] + 7) // 8, word & (2 ** 64 - 1)] + expdec
        if got != exp:
            return {"schema": src, "message": pas, "values": dict(zip([pc_["name"] for pc_ in pieces], vec)),
                    "expected[id,dlc,data,decoded...]": exp, "observed": got, "reproduced": True}
    return None


def c_replay_runtime(ob, model):
    """Re-run a refuted run-time obligation on the real can_signal_parser.c: compile a harness with gcc, compare with the spec."""
    import re
    m = re.match(r"can_signal_parser.c:(?:can_(encode_signal_from|decode_signal_as)_)?(\w+?)#", ob)
    if not m or not model:
        return None
    tname = m.group(2)
    w = int(re.sub(r"\D", "", tname) or 0)
    signed = tname.startswith("int")
    g = lambda k, d=0: int(model.get(k, d))
    start, length, v, data, other = g("start"), g("length"), g("v"), g("data"), g("other")
    mask = (1 << length) - 1 if length < 64 else 2 ** 64 - 1
    sv = v - (1 << w) if signed and v >= 1 << (w - 1) else v
    if "roundtrip" in ob:
        word = (other & ~(mask << start) & (2 ** 64 - 1)) | (((sv & mask) << start) & (2 ** 64 - 1))
        expect = sv
        body = f"CanFrame f = {{0}}; uint64_t w = {word}ULL; memcpy(f.data, &w, 8); long long r = (long long)can_decode_signal_as_{tname}(&f, {start}, {length}, 1.0, 0.0, false); printf(\"%lld\\n\", r);"
    elif m.group(1) == "decode_signal_as":
        field = (data >> start) & mask
        expect = field - (1 << length) if signed and length and field >> (length - 1) & 1 else field
        if w < 64:
            expect = ((expect + (1 << (w - 1))) % (1 << w)) - (1 << (w - 1)) if signed else expect % (1 << w)
        body = f"CanFrame f = {{0}}; uint64_t w = {data}ULL; memcpy(f.data, &w, 8); long long r = (long long)can_decode_signal_as_{tname}(&f, {start}, {length}, 1.0, 0.0, false); printf(\"%lld\\n\", r);"
    else:
        expect = ((sv & mask) << start) & (2 ** 64 - 1)
        if expect >= 2 ** 63:
            expect -= 2 ** 64
        body = f"long long r = (long long)can_encode_signal_from_{tname}(({tname}){sv}LL, {start}, {length}, 1.0, 0.0, false); printf(\"%lld\\n\", r);"
    d = tempfile.mkdtemp(prefix="cvc_replay_")
    try:
        src = os.path.join(d, "h.c")
        open(src, "w").write('#include <stdio.h>\n#include <string.h>\n#include <stdbool.h>\n#include "can_signal_parser.h"\nint main(void){ ' + body + ' return 0; }\n')
        exe = os.path.join(d, "h")
        p = subprocess.run(["gcc", "-O0", "-I", TEMPL, src, os.path.join(TEMPL, "can_signal_parser.c"), "-o", exe], capture_output=True, text=True)
        if p.returncode != 0:
            return {"error": p.stderr[:400]}
        r = subprocess.run([exe], capture_output=True, text=True, timeout=20)
        got = int(r.stdout.strip())
        return {"inputs": {"type": tname, "v": sv, "start": start, "length": length, "data": data, "other": other},
                "expected": expect, "observed": got, "reproduced": got != expect}
    except Exception as e:
        return {"error": str(e)}
    finally:
        shutil.rmtree(d, ignore_errors=True)


def main(pid, tier, seed):
    t0 = time.time()
    out, samples = [], []
    scratch = tempfile.mkdtemp(prefix="cvc_")
    try:
        if pid == "C06":
            try:
                tu = TU([os.path.join(TEMPL, "can_signal_parser.c")], [TEMPL])
                runtime_obligations(tu, out)
                runtime_float_obligations(tu, out)
            except CUnsupported as e:
                out.append({"obligation": "can_signal_parser.c", "verdict": "unknown", "reason": str(e)})
            for name, src in gen_family(seed, tier):
                generated_obligations(name, src, out, samples, scratch)
            # the Python half of the C generator that is under a PyVC contract (carrier width selection)
            try:
                from pv import run as prun
                for r in prun.run_targets(["fcp_can_c.can_c_writer:ceil_to_power_of_2"], timeout_ms=10000 if tier == "quick" else 60000, jobs=2):
                    if r.get("error") or r.get("undecided"):
                        out.append({"obligation": "py:" + r["target"], "verdict": "unknown", "reason": str(r.get("error") or r.get("undecided"))[:300]})
                    for n, o in r.get("obligations", {}).items():
                        out.append({"obligation": "py:" + n, "verdict": "proved" if o["verdict"] == "proved" else ("refuted" if o["verdict"] == "refuted" else "unknown"),
                                    "solver_s": o.get("solver_s"), "backend": "PyVC / z3 (case split 1..64)", "reason": json.dumps(o.get("detail"))[:300] if o.get("detail") else None})
            except Exception as e:
                out.append({"obligation": "py:fcp_can_c.can_c_writer:ceil_to_power_of_2", "verdict": "unknown", "reason": "PyVC: " + repr(e)[:200]})
        else:
            for name, src in gen_family(seed, tier):
                scheduler_obligations(name, src, out, samples, scratch)
            for name, src in gen_family(seed, tier):
                if name in ("basic", "mixed", "wide"):
                    scheduler_obligations(name, src, out, samples, scratch, symbolic=True)
    finally:
        shutil.rmtree(scratch, ignore_errors=True)
    return finish(pid, tier, seed, out, samples, t0)


def finish(pid, tier, seed, out, samples, t0):
    kf = json.load(open(os.path.join(VERIF, "known_findings.json")))
    known = {}
    for f in kf.get("findings", []):
        if f["property"] == pid or pid in f.get("also", []):
            for ob in f.get("c_obligations", []):
                known[ob] = f
    rc = 0
    printed = set()
    printed_paths = set()
    n = len(out)
    ok = sum(1 for o in out if o["verdict"] == "proved")
    viol = 0
    os.makedirs(os.path.join(VERIF, "replays", pid), exist_ok=True)
    for o in out:
        if o["verdict"] == "proved":
            continue
        f = known.get(o["obligation"])
        if f is not None and o["verdict"] == "refuted":
            if f["id"] not in printed:
                print(f"KNOWN-FINDING: property={pid} {f['what']} [witness: {f['witness']}]")
                printed.add(f["id"])
            continue
        if o["verdict"] == "refuted":
            path = os.path.join("replays", pid, hashlib.sha1(o["obligation"].encode()).hexdigest()[:12] + ".json")
            rp = c_replay_runtime(o["obligation"], o.get("model")) if o["obligation"].startswith("can_signal_parser.c:") else o.get("concrete")
            ok_rp = bool(rp and rp.get("reproduced"))
            json.dump({"property": pid, "obligation": o["obligation"], "verdict": "refuted", "solver_model": o.get("model"),
                       "replay_on_real_code": rp, "reproduced": ok_rp,
                       "detail": {k: v for k, v in o.items() if k not in ("model", "concrete")}}, open(os.path.join(VERIF, path), "w"), indent=1, default=str)
            if path not in printed_paths:
                print(f"VIOLATION property={pid} replay={path}" + ("" if ok_rp else " no-failing-input-found"))
                printed_paths.add(path)
            viol += 1
            rc = 1
        else:
            print(f"UNDECIDED property={pid} obligation={o['obligation']} reason={str(o.get('reason'))[:200]}")
            if rc == 0:
                rc = 2
    if n == 0:
        print(f"CHECKER-ERROR property={pid} zero obligations")
        rc = 3
    ev = {"property_id": pid, "tier": tier, "seed": seed, "level": "proof",
          "coverage": {"obligations": n, "discharged": ok + sum(1 for o in out if o["verdict"] == "refuted" and o["obligation"] in known),
                       "checker_cmd": f"./vcheck {pid} --tier {tier}",
                       "trusted_base": [
                           "clang 14's typed AST (-ast-dump=json) is the semantics of the translation unit: promotions and conversions are the "
                           "explicit cast nodes",
                           "little-endian host; CanFrame.data[8] accessed through (uint64_t *) is one 64-bit word (strict aliasing ignored, as "
                           "the code does); unions are bit patterns; bit-fields id:11 / dlc:4 are masked integers",
                           "float arguments that are literals (scale 1.0, offset 0.0) are folded with IEEE-754 semantics",
                           "the family of generated programs is finite: each program is proved for all inputs, the jinja templates are not "
                           "proved to produce the same shape for schemas outside the family; for three program shapes the scheduler is also "
                           "proved with the #define'd periods as arbitrary ints >= -1 (sentinel literals read as symbolic constants)",
                           "z3 4.x/5.x bit-vector and floating point decision procedures; pv/cfront.py itself"],
                       "programs": len({o["obligation"].split("]")[0] for o in out if o["obligation"].startswith("gen[")}),
                       "samples": samples or [o for o in out[:3]],
                       "obligation_list": [{k: v for k, v in o.items() if k != "model"} for o in out][:200],
                       "solver_s": round(sum(o.get("solver_s", 0) or 0 for o in out), 2),
                       "known_findings_active": sorted(printed)},
          "assumptions": ["see trusted_base"], "wall_s": round(time.time() - t0, 2), "violations": viol}
    os.makedirs(os.path.join(VERIF, "evidence"), exist_ok=True)
    json.dump(ev, open(os.path.join(VERIF, "evidence", pid + ".json"), "w"), indent=1, default=str)
    print(f"{pid}: obligations={n} discharged={ok} refuted={sum(1 for o in out if o['verdict']=='refuted')} "
          f"undecided={sum(1 for o in out if o['verdict']=='unknown')} wall_s={time.time()-t0:.1f} exit={rc}")
    return rc
