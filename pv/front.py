"""Front end: reads the real sources under /repo with `ast` (never imports them), resolves
`module:qualname`, extracts the class hierarchy, and parses the sidecar contract files.

What extraction drops, exactly: docstrings, comments, type annotations of the repo (the contract
stub's annotations give the sorts), class decorators (`@serde(...)`), `# type: ignore`.
"""
from __future__ import annotations
import ast, hashlib, os, sys
from dataclasses import dataclass, field
from typing import Dict, List, Optional, Tuple, Any

REPO = os.environ.get("VERIF_REPO", "/repo")
VERIF = os.path.dirname(os.path.dirname(os.path.abspath(__file__)))

# module name -> path relative to the repo root
MODULE_ROOTS = [
    ("fcp", "src/fcp"),
    ("fcp_dbc", "plugins/fcp_dbc/fcp_dbc"),
    ("fcp_can_c", "plugins/fcp_can_c/fcp_can_c"),
    ("fcp_cpp", "plugins/fcp_cpp/fcp_cpp"),
    ("fcp_nop", "plugins/fcp_nop/fcp_nop"),
]


class OutsideSubset(Exception):
    """Raised when code leaves the supported subset: obligations become UNDECIDED."""


class EffectMissing(Exception):
    """an effect the contract talks about did not happen on this path: the clause is false"""


class ContractError(Exception):
    """The contract files themselves are broken (checker error, exit 3)."""


def module_path(mod: str) -> str:
    if mod.startswith("spec.") or mod.startswith("lemmas.") or mod.startswith("theorems."):
        return os.path.join(VERIF, mod.replace(".", "/") + ".py")
    for root, rel in MODULE_ROOTS:
        if mod == root or mod.startswith(root + "."):
            sub = mod[len(root):].lstrip(".")
            base = os.path.join(REPO, rel, *sub.split(".")) if sub else os.path.join(REPO, rel)
            if os.path.isdir(base):
                return os.path.join(base, "__init__.py")
            return base + ".py"
    raise OutsideSubset(f"unknown module {mod}")


@dataclass
class Module:
    name: str
    path: str
    src: str
    tree: ast.Module
    sha256: str
    imports: Dict[str, Tuple[str, Optional[str]]] = field(default_factory=dict)  # local name -> (module, attr)
    defs: Dict[str, ast.AST] = field(default_factory=dict)  # top-level name -> node


_modules: Dict[str, Module] = {}


def _resolve_relative(cur: str, level: int, mod: Optional[str], is_pkg: bool) -> str:
    parts = cur.split(".")
    if not is_pkg:
        parts = parts[:-1]
    if level > 1:
        parts = parts[: len(parts) - (level - 1)]
    if mod:
        parts = parts + mod.split(".")
    return ".".join(parts)


def load_module(name: str) -> Module:
    if name in _modules:
        return _modules[name]
    path = module_path(name)
    if not os.path.exists(path):
        raise OutsideSubset(f"module file missing: {path}")
    src = open(path, encoding="utf-8").read()
    tree = ast.parse(src, filename=path)
    m = Module(name, path, src, tree, hashlib.sha256(src.encode()).hexdigest())
    is_pkg = path.endswith("__init__.py")
    for node in tree.body:
        if isinstance(node, ast.Import):
            for a in node.names:
                m.imports[a.asname or a.name.split(".")[0]] = (a.name, None)
        elif isinstance(node, ast.ImportFrom):
            base = _resolve_relative(name, node.level, node.module, is_pkg) if node.level else node.module
            for a in node.names:
                m.imports[a.asname or a.name] = (base, a.name)
        elif isinstance(node, (ast.FunctionDef, ast.ClassDef)):
            m.defs[node.name] = node
        elif isinstance(node, ast.Assign):
            for t in node.targets:
                if isinstance(t, ast.Name):
                    m.defs[t.id] = node
    _modules[name] = m
    return m


def reset_cache():
    _modules.clear()
    _classes.clear()


def find_def(mod: Module, qualname: str) -> ast.AST:
    """Resolve a dotted qualname through nested ClassDef / FunctionDef nodes."""
    parts = qualname.split(".")
    body = mod.tree.body
    node = None
    for p in parts:
        found = None
        for n in body:
            if isinstance(n, (ast.FunctionDef, ast.ClassDef)) and n.name == p:
                found = n
        if found is None:
            raise OutsideSubset(f"{mod.name}:{qualname} not found (anchor mismatch)")
        node = found
        body = found.body
    return node


def func_source_hash(node: ast.AST) -> str:
    return hashlib.sha256(ast.dump(node).encode()).hexdigest()[:16]


# ---------------------------------------------------------------- class hierarchy

@dataclass
class ClassInfo:
    name: str
    module: str
    node: ast.ClassDef
    bases: List[str]            # base class *names* as written
    methods: Dict[str, ast.FunctionDef]
    annotations: Dict[str, str]  # field -> annotation text


_classes: Dict[str, ClassInfo] = {}


def class_info(module: str, name: str) -> ClassInfo:
    key = module + ":" + name
    if key in _classes:
        return _classes[key]
    m = load_module(module)
    node = m.defs.get(name)
    if not isinstance(node, ast.ClassDef):
        raise OutsideSubset(f"class {key} not found")
    bases = []
    for b in node.bases:
        if isinstance(b, ast.Name):
            bases.append(b.id)
        elif isinstance(b, ast.Attribute):
            bases.append(b.attr)
        elif isinstance(b, ast.Subscript):  # Generic[T]
            continue
    methods, ann = {}, {}
    for n in node.body:
        if isinstance(n, ast.FunctionDef):
            methods[n.name] = n
        elif isinstance(n, ast.AnnAssign) and isinstance(n.target, ast.Name):
            ann[n.target.id] = ast.unparse(n.annotation)
    ci = ClassInfo(name, module, node, bases, methods, ann)
    _classes[key] = ci
    return ci


def resolve_class(module: str, name: str) -> Optional[ClassInfo]:
    """Find class `name` as visible from `module` (own def or import)."""
    try:
        m = load_module(module)
    except OutsideSubset:
        return None
    if isinstance(m.defs.get(name), ast.ClassDef):
        return class_info(module, name)
    if name in m.imports:
        base, attr = m.imports[name]
        if attr is None:
            return None
        try:
            return resolve_class(base, attr)
        except OutsideSubset:
            return None
    return None


def mro(ci: ClassInfo) -> List[ClassInfo]:
    out = [ci]
    for b in ci.bases:
        bi = resolve_class(ci.module, b)
        if bi is not None:
            for x in mro(bi):
                if x not in out:
                    out.append(x)
    return out


def lookup_method(ci: ClassInfo, meth: str) -> Optional[Tuple[ClassInfo, ast.FunctionDef]]:
    for c in mro(ci):
        if meth in c.methods:
            return c, c.methods[meth]
    return None


def is_subclass(ci: ClassInfo, base_name: str) -> bool:
    return any(c.name == base_name for c in mro(ci))


def classes_in_module(module: str) -> List[ClassInfo]:
    m = load_module(module)
    return [class_info(module, n) for n, d in m.defs.items() if isinstance(d, ast.ClassDef)]


# ---------------------------------------------------------------- contracts

@dataclass
class LoopSpec:
    ordinal: int
    over: Optional[str]
    invariants: List[ast.Lambda]
    modifies: List[ast.expr] = field(default_factory=list)
    decreases: Optional[ast.expr] = None


@dataclass
class Contract:
    target: str                     # module:qualname
    stub: ast.FunctionDef
    file: str
    params: List[Tuple[str, Optional[str]]]  # name, annotation text
    returns: Optional[str]
    requires: List[ast.expr] = field(default_factory=list)
    ensures: List[ast.expr] = field(default_factory=list)
    ensures_raise: List[ast.expr] = field(default_factory=list)
    raises: List[Tuple[str, ast.expr]] = field(default_factory=list)   # (exc class, iff-condition)
    may_raise: List[str] = field(default_factory=list)
    modifies: List[ast.expr] = field(default_factory=list)
    ghost_sets: List[Tuple[ast.expr, ast.expr]] = field(default_factory=list)
    loops: Dict[int, LoopSpec] = field(default_factory=dict)
    decreases: Optional[ast.expr] = None
    hints: List[ast.expr] = field(default_factory=list)
    splits: List[Tuple[ast.expr, ast.expr]] = field(default_factory=list)
    kind: str = "proved"            # proved | assumed (external / trusted) | lemma | theorem | spec
    inline: bool = False
    note: str = ""
    fresh: List[Tuple[str, str]] = field(default_factory=list)   # ghost existentials: name, sort
    options: Dict[str, Any] = field(default_factory=dict)


CLAUSES = {"lemma_after", "lemma_before", "must_raise_if", "use_lemma", "ghost_before", "ensures_effects", "ghost_arg", "no_raise_if", "requires", "ensures", "ensures_raise", "raises", "may_raise", "modifies", "ghost_set", "loop",
           "decreases", "hint", "split", "note", "fresh", "option"}


def _const(node):
    return ast.literal_eval(node)


def parse_contract_file(path: str) -> Tuple[List[Contract], Dict[str, Any]]:
    src = open(path, encoding="utf-8").read()
    tree = ast.parse(src, filename=path)
    out: List[Contract] = []
    tables: Dict[str, Any] = {}
    for node in tree.body:
        if isinstance(node, ast.Assign) and len(node.targets) == 1 and isinstance(node.targets[0], ast.Name):
            try:
                tables[node.targets[0].id] = ast.literal_eval(node.value)
            except Exception as e:
                raise ContractError(f"{path}: table {node.targets[0].id}: {e}")
            continue
        if not isinstance(node, ast.FunctionDef):
            continue
        kind, target, inline = None, None, False
        for d in node.decorator_list:
            if isinstance(d, ast.Call) and isinstance(d.func, ast.Name) and d.func.id in (
                    "contract", "assumed", "lemma", "theorem"):
                kind = {"contract": "proved", "assumed": "assumed", "lemma": "lemma", "theorem": "theorem"}[d.func.id]
                target = _const(d.args[0]) if d.args else "verif:" + node.name
                for kw in d.keywords:
                    if kw.arg == "inline":
                        inline = bool(_const(kw.value))
        if kind is None:
            continue
        params = []
        for a in node.args.args:
            params.append((a.arg, ast.unparse(a.annotation).strip("'\"") if a.annotation else None))
        ret = ast.unparse(node.returns).strip("'\"") if node.returns else None
        c = Contract(target, node, path, params, ret, kind=kind, inline=inline)
        body_start = 0
        for i, st in enumerate(node.body):
            if isinstance(st, ast.Expr) and isinstance(st.value, ast.Constant) and isinstance(st.value.value, str):
                body_start = i + 1
                continue
            if not (isinstance(st, ast.Expr) and isinstance(st.value, ast.Call) and isinstance(st.value.func, ast.Name)
                    and st.value.func.id in CLAUSES):
                break
            body_start = i + 1
            call = st.value
            fn = call.func.id
            kws = {k.arg: k.value for k in call.keywords}
            if fn == "requires":
                c.requires += call.args
            elif fn == "ensures":
                c.ensures += call.args
            elif fn == "ensures_effects":
                c.options.setdefault("ensures_effects", []).extend(call.args)
            elif fn == "ensures_raise":
                c.ensures_raise += call.args
            elif fn == "raises":
                cond = kws.get("iff") or kws.get("when") or (call.args[1] if len(call.args) > 1 else None)
                if cond is None:
                    raise ContractError(f"{path}:{node.name}: raises needs a condition")
                c.raises.append((ast.unparse(call.args[0]), cond))
            elif fn == "may_raise":
                c.may_raise += [ast.unparse(a) for a in call.args]
            elif fn == "modifies":
                c.modifies += call.args
            elif fn == "ghost_set":
                c.ghost_sets.append((call.args[0], call.args[1]))
            elif fn == "decreases":
                c.decreases = call.args[0]
            elif fn == "hint":
                c.hints += call.args
            elif fn == "split":
                c.splits.append((call.args[0], call.args[1]))
            elif fn == "note":
                c.note = _const(call.args[0])
            elif fn == "fresh":
                c.fresh.append((_const(call.args[0]), _const(call.args[1])))
            elif fn == "option":
                c.options[_const(call.args[0])] = _const(call.args[1])
            elif fn == "lemma_before":
                c.options.setdefault("lemma_before", {}).setdefault(_const(call.args[0]), []).append(call.args[1])
            elif fn == "lemma_after":
                c.options.setdefault("lemma_after", {}).setdefault(_const(call.args[0]), []).append(call.args[1])
            elif fn == "must_raise_if":
                c.options.setdefault("must_raise_if", []).extend(call.args)
            elif fn == "use_lemma":
                c.options.setdefault("use_lemma", []).extend(call.args)
            elif fn == "ghost_before":
                c.options.setdefault("ghost_before", {}).setdefault(_const(call.args[0]), []).append((call.args[1], call.args[2]))
            elif fn == "ghost_arg":
                c.options.setdefault("ghost_args", {})[_const(call.args[0])] = dict(kws)
            elif fn == "no_raise_if":
                c.options.setdefault("no_raise_if", []).extend(call.args)
            elif fn == "loop":
                o = _const(call.args[0])
                ls = LoopSpec(o, _const(kws["over"]) if "over" in kws else None, [])
                for a in call.args[1:]:
                    ls.invariants.append(a)
                if "invariant" in kws:
                    ls.invariants.append(kws["invariant"])
                if "modifies" in kws:
                    v = kws["modifies"]
                    ls.modifies = list(v.elts) if isinstance(v, (ast.Tuple, ast.List)) else [v]
                if "decreases" in kws:
                    ls.decreases = kws["decreases"]
                c.loops[o] = ls
        c.options["body_start"] = body_start
        out.append(c)
    return out, tables
