"""Builtin functions and builtin-type methods (mixin)."""
from __future__ import annotations
import ast, z3
from typing import Any, Dict, List, Optional, Tuple
from . import front, smt
from .front import OutsideSubset, ContractError
from .smt import T, parse_T, Ref, Dyn, Flt, Int, Bool, Str
from .values import *
from .state import *
from .interp import *


class BuiltinMixin:
    def call_builtin(self, st: State, b: Builtin, args, kwargs, node=None):
        name = b.name
        if name == "ext:collections.defaultdict":
            return self.bi_defaultdict(st, args)
        if name == "ddlist.append":
            dl = b.self_val
            o = st.obj(dl.ref)
            m = o.fields[dl.field].e
            x = self.to_dyn(st, args[0])
            o.fields[dl.field] = Z(T("smap"), z3.Store(m, dl.key.e, z3.Concat(z3.Select(m, dl.key.e), z3.Unit(x))))
            return NONE
        if name == "ext:math.ceil":
            v = args[0]
            if isinstance(v, Z) and v.t.kind == "real":
                return zint(-z3.ToInt(-v.e))        # ceil(x) = -floor(-x); exact on rationals
            return zint(self.as_int(st, v))
        if name == "ext:copy.copy":
            return self.shallow_copy(st, args[0])
        if name.startswith("ext:"):
            c = self.contracts.get(name)
            if c is not None:
                return self.apply_contract(st, c, args, kwargs, name)
            if name in getattr(self, "opaque_ok", ()):
                # pure observers of the interpreter state (inspect.stack, Path(...)): result is an unknown value
                return Opaque(name[4:] + "()")
            raise OutsideSubset(f"external function {name[4:]} has no assumed contract")
        if "." in name and b.self_val is not None:
            return self.call_method_builtin(st, name, b.self_val, args, kwargs)
        m = getattr(self, "bi_" + name, None)
        if m is None:
            raise OutsideSubset(f"builtin {name}")
        return m(st, args, kwargs)

    def shallow_copy(self, st, v):
        """copy.copy: a new object with the same attribute values"""
        v = self.force(st, v) if not st.spec else v
        if isinstance(v, Z) and v.t.kind == "ref" and v.t.cls and v.t.cls in self.classes:
            cls = v.t.cls
            o = HeapObj("obj", cls, {})
            info = self.find_class_info(cls)
            if info is not None:
                o.info = info
            c = cls
            while c:
                m = self.classes.get(c) or {}
                for f in m.get("fields", {}):
                    if f not in o.fields:
                        o.fields[f] = self.read_field(st, v.e, f, self.field_T(cls, f))
                c = m.get("base")
            return st.alloc(o)
        if isinstance(v, HeapRef):
            return st.alloc(st.obj(v).clone())
        raise OutsideSubset(f"copy of {v!r}")

    def bi_noop(self, st, a, k):
        return NONE

    def bi_len(self, st, a, k):
        v = a[0] if st.spec else self.force(st, a[0])
        if isinstance(v, Union):
            return self.spec_map_union(st, v, lambda x: self.bi_len(st, [x], {}))
        if isinstance(v, Z):
            if v.t.kind in ("seq", "str"):
                return zint(z3.Length(v.e))
            if v.t.kind == "dyn":
                if st.spec:
                    return zint(z3.If(smt.dyn_is("DList", v.e), z3.Length(smt.dyn_acc("DList", 0, v.e)),
                                      z3.Length(smt.dyn_acc("DStr", 0, v.e))))
                which = self.pick(st, [(smt.dyn_is("DList", v.e), "l"), (smt.dyn_is("DStr", v.e), "s"),
                                       (z3.Not(z3.Or(smt.dyn_is("DList", v.e), smt.dyn_is("DStr", v.e))), "o")], "dyn-len")
                if which == "l":
                    return zint(z3.Length(smt.dyn_acc("DList", 0, v.e)))
                if which == "s":
                    return zint(z3.Length(smt.dyn_acc("DStr", 0, v.e)))
                raise OutsideSubset("len() of a dynamic value that is neither list nor str")
        if isinstance(v, Arr):
            return zint(v.n)
        if isinstance(v, PyTuple):
            return zint(len(v.items))
        if isinstance(v, HeapRef):
            o = st.obj(v)
            if o.kind in ("list", "dict"):
                return zint(len(o.items))
        if isinstance(v, RangeVal):
            return zint(z3.If(v.hi - v.lo > 0, v.hi - v.lo, 0))
        raise OutsideSubset(f"len of {v!r}")

    def bi_range(self, st, a, k):
        if len(a) == 1:
            return RangeVal(z3.IntVal(0), self.as_int(st, a[0]))
        if len(a) == 2:
            return RangeVal(self.as_int(st, a[0]), self.as_int(st, a[1]))
        raise OutsideSubset("range with step")

    def bi_defaultdict(self, st, args):
        """collections.defaultdict(lambda: {"k1": list(), "k2": list(), ...}): a map from strings to records of lists.
        Model: the insertion-ordered key list plus, per record field, a map str -> list of values (empty by default)."""
        if len(args) != 1:
            raise OutsideSubset("defaultdict() without a factory")
        tmpl = self.force(st, self.call(st, args[0], [], {}))
        if not (isinstance(tmpl, HeapRef) and st.obj(tmpl).kind == "dict"):
            raise OutsideSubset("defaultdict factory that does not build a record of lists")
        fields = {"keys": Z(T("seq", (T("str"),)), z3.Empty(z3.SeqSort(Str)))}
        for k, v in st.obj(tmpl).items.items():
            vv = self.force(st, v)
            if not (isinstance(k, str) and isinstance(vv, HeapRef) and st.obj(vv).kind == "list" and not st.obj(vv).items):
                raise OutsideSubset("defaultdict factory that does not build a record of empty lists")
            fields[k] = Z(T("smap"), z3.K(Str, z3.Empty(z3.SeqSort(Dyn))))
        o = HeapObj("obj", "defaultdict", fields)
        o.dd_fields = [k for k in fields if k != "keys"]
        return st.alloc(o)

    def dd_seq(self, st, dl):
        o = st.obj(dl.ref)
        return Z(T("seq", (T("dyn"),)), z3.Select(o.fields[dl.field].e, dl.key.e))

    def bi_int(self, st, a, k):
        v = a[0] if st.spec else self.force(st, a[0])
        if isinstance(v, Z):
            if v.t.kind in ("int", "bool", "dyn"):
                return zint(self.as_int(st, v))
            if v.t.kind == "real":
                s = z3.simplify(v.e)
                st.notes.append("int() of a rational: truncation toward zero")
                return zint(z3.If(v.e >= 0, z3.ToInt(v.e), -z3.ToInt(-v.e)))
            if v.t.kind == "str":
                cs = const_str(v)
                if cs is not None:
                    try:
                        return zint(int(cs))
                    except ValueError:
                        raise PyRaise(self.make_exc(st, "ValueError", []))
                r = z3.StrToInt(v.e)
                if not st.spec and not self.branch(st, r >= 0, "int(str)"):
                    # z3: str.to_int is -1 for anything that is not a digit string (python also accepts
                    # signs/spaces/underscores: those inputs are outside the modelled domain)
                    raise PyRaise(self.make_exc(st, "ValueError", []))
                return zint(r)
            if v.t.kind == "char":
                raise OutsideSubset("int(char)")
        raise OutsideSubset(f"int({v!r})")

    def bi_float(self, st, a, k):
        v = a[0]
        if isinstance(v, Z) and v.t.kind in ("float", "real"):
            return v
        if isinstance(v, Z) and v.t.kind == "dyn":
            if not st.spec:
                self.oblige(st, f"{st.frame.qualname}#side:type-float", smt.dyn_is("DFloat", v.e), "side")
            return Z(T("float"), smt.dyn_acc("DFloat", 0, v.e))
        raise OutsideSubset("float()")

    def bi_bool(self, st, a, k):
        return zbool(self.truthy(st, a[0]))

    def bi_str(self, st, a, k):
        if not a:
            return zstr("")
        return zstr(self.to_str_term(st, a[0]))

    def bi_repr(self, st, a, k):
        return zstr(st.fresh("repr", Str))

    def bi_ord(self, st, a, k):
        v = a[0]
        if isinstance(v, Z) and v.t.kind == "char":
            return zint(v.e)
        if isinstance(v, Z) and v.t.kind == "str":
            return zint(z3.StrToCode(v.e))
        raise OutsideSubset("ord")

    def bi_chr(self, st, a, k):
        return Z(T("char"), self.as_int(st, a[0]))

    def bi_abs(self, st, a, k):
        e = self.as_int(st, a[0])
        return zint(z3.If(e >= 0, e, -e))

    def bi_list(self, st, a, k):
        if not a:
            return st.alloc(HeapObj("list", "list", items=[]))
        v = self.force(st, a[0])
        items = self.concrete_items(st, v)
        if items is not None:
            return st.alloc(HeapObj("list", "list", items=list(items)))
        if isinstance(v, (Arr,)):
            return v
        if isinstance(v, Z) and v.t.kind == "seq":
            return v
        if isinstance(v, RangeVal):
            fn = smt.ufunc("range_seq", Int, Int, z3.SeqSort(Int))
            r = fn(v.lo, v.hi)
            st.axioms.append(z3.Length(r) == z3.If(v.hi - v.lo > 0, v.hi - v.lo, 0))
            j = z3.Int("rj!")
            st.axioms.append(z3.ForAll([j], z3.Implies(z3.And(0 <= j, j < z3.Length(r)), smt.nth_int(r, j) == v.lo + j)))
            return Z(T("seq", (T("int"),)), r)
        if isinstance(v, Z) and v.t.kind == "dyn":
            # list(bytes-like dynamic value) is only used on byte strings handed to decode
            raise OutsideSubset("list() of dynamic value")
        raise OutsideSubset(f"list({v!r})")

    def bi_tuple(self, st, a, k):
        if not a:
            return PyTuple([])
        items = self.concrete_items(st, self.force(st, a[0]))
        if items is None:
            raise OutsideSubset("tuple() of symbolic data")
        return PyTuple(items)

    def bi_dict(self, st, a, k):
        d = {}
        if a:
            v = self.force(st, a[0])
            if isinstance(v, HeapRef) and st.obj(v).kind == "dict":
                d.update(st.obj(v).items)
            else:
                items = self.concrete_items(st, v)
                if items is None:
                    raise OutsideSubset("dict() of symbolic data")
                for it in items:
                    pair = self.concrete_items(st, it)
                    if pair is None or len(pair) != 2:
                        raise PyRaise(self.make_exc(st, "ValueError", []))
                    kk = self.dict_key(st, pair[0])
                    if kk is None:
                        raise OutsideSubset("dict() with symbolic key")
                    d[kk] = pair[1]
        for kk, vv in k.items():
            d[kk] = vv
        return st.alloc(HeapObj("dict", "dict", items=d))

    def bi_bytearray(self, st, a, k):
        if not a:
            return Arr(z3.K(Int, z3.IntVal(0)), z3.IntVal(0))
        v = self.force(st, a[0])
        if isinstance(v, Arr):
            return v
        return self.seq_to_arr(st, v)

    bi_bytes = bi_bytearray

    def bi_print(self, st, a, k):
        st.ghost.setdefault("effects", []).append(("print", list(a)))
        return NONE

    def bi_enumerate(self, st, a, k):
        items = self.concrete_items(st, self.force(st, a[0]))
        if items is None:
            raise OutsideSubset("enumerate over symbolic data")
        return st.alloc(HeapObj("list", "list", items=[PyTuple([zint(i), x]) for i, x in enumerate(items)]))

    def bi_zip(self, st, a, k):
        ls = [self.concrete_items(st, self.force(st, x)) for x in a]
        if any(l is None for l in ls):
            raise OutsideSubset("zip over symbolic data")
        return st.alloc(HeapObj("list", "list", items=[PyTuple(list(t)) for t in zip(*ls)]))

    def bi_map(self, st, a, k):
        src = self.force(st, a[1]) if not st.spec else a[1]
        items = self.concrete_items(st, src)
        if items is None and isinstance(src, Z) and src.t.kind == "seq":
            return self.seq_map_func(st, a[0], src)
        if items is None:
            raise OutsideSubset("map over symbolic data")
        return st.alloc(HeapObj("list", "list", items=[self.call(st, a[0], [x], {}) for x in items]))

    def bi_any(self, st, a, k):
        items = self.concrete_items(st, self.force(st, a[0]))
        if items is None:
            raise OutsideSubset("any over symbolic data")
        return zbool(z3.Or([self.truthy(st, x) for x in items] or [z3.BoolVal(False)]))

    def bi_all(self, st, a, k):
        items = self.concrete_items(st, self.force(st, a[0]))
        if items is None:
            raise OutsideSubset("all over symbolic data")
        return zbool(z3.And([self.truthy(st, x) for x in items] or [z3.BoolVal(True)]))

    def bi_sum(self, st, a, k):
        src = self.force(st, a[0]) if not st.spec else a[0]
        items = self.concrete_items(st, src)
        if items is None and isinstance(src, Z) and src.t.kind == "seq" and src.t.args[0].kind == "int" and len(a) == 1 \
                and "py_sum" in self.specs:
            if not st.spec and st.frames:
                # ghost lemma calls placed before this builtin by the caller's contract: lemma_before("sum", lemma(ARG0, ...))
                cc = getattr(st.frame, "contract", None)
                for le in ((cc.options.get("lemma_before") or {}).get("sum", []) if cc is not None else []):
                    st.frame.env["ARG0"] = src
                    try:
                        self.ev(st, le)
                    finally:
                        st.frame.env.pop("ARG0", None)
            # builtin sum over a list = the recursive sum py_sum of spec/builtins.py
            return self.call_spec(st, self.specs["py_sum"], [src, zint(z3.Length(src.e))], {})
        if items is None:
            raise OutsideSubset("sum over symbolic data")
        return zint(z3.Sum([self.as_int(st, x) for x in items]) if items else z3.IntVal(0))

    def _minmax(self, st, a, k, ismax):
        if len(a) == 1:
            src = self.force(st, a[0]) if not st.spec else a[0]
            items = self.concrete_items(st, src)
            if items is None and ismax and isinstance(src, Z) and src.t.kind == "seq" and src.t.args[0].kind == "int" \
                    and "key" not in k and "py_max" in self.specs:
                # builtin max over a list = the recursive maximum (spec/builtins.py: py_max), `default` for an empty list
                if "default" not in k:
                    if not st.spec and not self.branch(st, z3.Length(src.e) > 0, "max-nonempty"):
                        raise PyRaise(self.make_exc(st, "ValueError", []))
                    d = zint(0)
                else:
                    d = k["default"]
                return self.call_spec(st, self.specs["py_max"], [src, zint(z3.Length(src.e)), d], {})
            if items is None:
                raise OutsideSubset("max/min over symbolic data")
            if not items:
                if "default" in k:
                    return k["default"]
                raise PyRaise(self.make_exc(st, "ValueError", []))
        else:
            items = list(a)
        if "key" in k:
            raise OutsideSubset("max/min with key")
        out = self.as_int(st, items[0])
        for x in items[1:]:
            e = self.as_int(st, x)
            out = z3.If(e > out, e, out) if ismax else z3.If(e < out, e, out)
        return zint(out)

    def bi_max(self, st, a, k):
        return self._minmax(st, a, k, True)

    def bi_min(self, st, a, k):
        return self._minmax(st, a, k, False)

    def bi_sorted(self, st, a, k):
        v = self.force(st, a[0])
        keyf = k.get("key")
        desc = "id"
        if keyf is not None:
            if isinstance(keyf, Func) and isinstance(keyf.node, ast.Lambda) and isinstance(keyf.node.body, ast.Attribute) \
                    and isinstance(keyf.node.body.value, ast.Name) and keyf.node.body.value.id == keyf.node.args.args[0].arg:
                desc = keyf.node.body.attr
            else:
                raise OutsideSubset("sorted with a key that is not `lambda x: x.attr`")
        if k.get("reverse") is not None:
            raise OutsideSubset("sorted(reverse=...)")
        items = self.concrete_items(st, v)
        if items is not None:
            keys = []
            for x in items:
                kv = self.getattr(st, x, desc) if desc != "id" else x
                c = const_int(kv) if isinstance(kv, Z) else None
                if c is None:
                    raise OutsideSubset("sorted over concrete items with symbolic keys")
                keys.append(c)
            order = sorted(range(len(items)), key=lambda i: keys[i])
            return st.alloc(HeapObj("list", "list", items=[items[i] for i in order]))
        if isinstance(v, Z) and v.t.kind == "seq":
            fn = smt.ufunc(f"sorted_by.{desc}.{v.t.args[0].kind}", v.e.sort(), v.e.sort())
            r = fn(v.e)
            st.axioms.append(z3.Length(r) == z3.Length(v.e))
            st.ghost.setdefault("__sorted", []).append((desc, v, r))
            return Z(v.t, r)
        raise OutsideSubset(f"sorted({v!r})")

    def bi_hasattr(self, st, a, k):
        raise OutsideSubset("hasattr")

    def bi_type(self, st, a, k):
        raise OutsideSubset("type()")

    def bi_open(self, st, a, k):
        raise OutsideSubset("open()")

    def bi_set(self, st, a, k):
        raise OutsideSubset("set()")

    # ----------------------------------------------------------------- methods of builtin types
    def call_method_builtin(self, st, name, sv, args, kwargs):
        recv, loc = sv
        kind, meth = name.split(".", 1)
        if kind == "list":
            o = st.obj(recv)
            if meth == "append":
                o.items.append(args[0])
                return NONE
            if meth == "extend":
                items = self.concrete_items(st, self.force(st, args[0]))
                if items is None:
                    raise OutsideSubset("extend with symbolic data")
                o.items.extend(items)
                return NONE
            if meth == "count":
                return zint(z3.Sum([z3.If(self.eq(st, y, args[0]), 1, 0) for y in o.items]) if o.items else z3.IntVal(0))
            if meth == "copy":
                return st.alloc(HeapObj("list", "list", items=list(o.items)))
            if meth == "index":
                raise OutsideSubset("list.index")
            if meth == "pop":
                if not o.items:
                    raise PyRaise(self.make_exc(st, "IndexError", []))
                i = const_int(args[0]) if args else -1
                return o.items.pop(i)
            if meth == "insert":
                i = const_int(args[0])
                if i is None:
                    raise OutsideSubset("insert at symbolic index")
                o.items.insert(i, args[1])
                return NONE
        if kind == "dict":
            o = st.obj(recv)
            if meth == "get":
                default = args[1] if len(args) > 1 else kwargs.get("default", NONE)
                key = self.dict_key(st, args[0])
                if key is not None:
                    return o.items.get(key, default)
                k = args[0]
                if isinstance(k, Z) and k.t.kind == "str":
                    keys = [kk for kk in o.items if isinstance(kk, str)]
                    alts = [(k.e == z3.StringVal(kk), kk) for kk in keys]
                    alts.append((z3.And([k.e != z3.StringVal(kk) for kk in keys] or [z3.BoolVal(True)]), None))
                    if st.spec:
                        out = default
                        for kk in reversed(keys):
                            out = self.merge(st, k.e == z3.StringVal(kk), o.items[kk], out)
                        return out
                    which = self.pick(st, alts, "dict.get")
                    return default if which is None else o.items[which]
                if k is NONE:
                    return o.items.get(None, default)
                raise OutsideSubset("dict.get with a symbolic key")
            if meth == "items":
                return st.alloc(HeapObj("list", "list", items=[PyTuple([self.lift_key(kk), vv]) for kk, vv in o.items.items()]))
            if meth == "keys":
                return st.alloc(HeapObj("list", "list", items=[self.lift_key(kk) for kk in o.items]))
            if meth == "values":
                return st.alloc(HeapObj("list", "list", items=list(o.items.values())))
            if meth == "update":
                src = self.force(st, args[0])
                if isinstance(src, HeapRef) and st.obj(src).kind == "dict":
                    o.items.update(st.obj(src).items)
                    return NONE
                raise OutsideSubset("dict.update with symbolic data")
            if meth == "setdefault":
                key = self.dict_key(st, args[0])
                if key is None:
                    raise OutsideSubset("setdefault with symbolic key")
                if key not in o.items:
                    o.items[key] = args[1] if len(args) > 1 else NONE
                return o.items[key]
            if meth == "copy":
                return st.alloc(HeapObj("dict", "dict", items=dict(o.items)))
        if kind == "seq":
            if meth == "append":
                x = self.to_z(st, args[0], recv.t.args[0])
                self.assign(st, self._as_store(loc), Z(recv.t, z3.Concat(recv.e, z3.Unit(x.e))))
                return NONE
            if meth == "count":
                return self.seq_count(st, recv, args[0])
            if meth == "extend":
                other = self.force(st, args[0])
                oz = other if (isinstance(other, Z) and other.t.kind == "seq" and other.e.sort() == recv.e.sort()) else self.to_z(st, other, recv.t)
                self.assign(st, self._as_store(loc), Z(recv.t, z3.Concat(recv.e, oz.e)))
                return NONE
            if meth == "copy":
                return recv
        if kind == "arr":
            if meth == "append":
                self.assign(st, self._as_store(loc), Arr(z3.Store(recv.a, recv.n, self.as_int(st, args[0])), recv.n + 1))
                return NONE
            if meth == "decode":
                c = self.contracts.get("ext:bytearray.decode")
                if c is not None:
                    return self.apply_contract(st, c, [recv] + list(args), kwargs, "ext:bytearray.decode")
                raise OutsideSubset("bytearray.decode without an assumed contract")
        if kind == "tuple":
            if meth == "count":
                return zint(z3.Sum([z3.If(self.eq(st, y, args[0]), 1, 0) for y in recv.items]) if recv.items else z3.IntVal(0))
        if kind == "str":
            s = recv.e
            if meth == "replace":
                a, b = self.to_z(st, args[0], T("str")).e, self.to_z(st, args[1], T("str")).e
                fn = smt.ufunc("str.replace_all", Str, Str, Str, Str)
                r = fn(s, a, b)
                st.axioms.append(z3.Implies(z3.Not(z3.Contains(s, a)), r == s))
                return zstr(r)
            if meth == "startswith":
                return zbool(z3.PrefixOf(self.to_z(st, args[0], T("str")).e, s))
            if meth == "endswith":
                return zbool(z3.SuffixOf(self.to_z(st, args[0], T("str")).e, s))
            if meth == "join":
                items = self.concrete_items(st, self.force(st, args[0]))
                if items is None:
                    fn = smt.ufunc("str.join", Str, z3.SeqSort(Str), Str)
                    return zstr(fn(s, self.to_z(st, args[0], T("seq", (T("str"),))).e))
                parts = []
                for i, x in enumerate(items):
                    if i:
                        parts.append(s)
                    parts.append(self.to_z(st, x, T("str")).e)
                if not parts:
                    return zstr("")
                return zstr(z3.Concat(*parts) if len(parts) > 1 else parts[0])
            if meth in ("lower", "upper", "capitalize", "strip", "lstrip", "rstrip", "title"):
                fn = smt.ufunc("str." + meth, Str, Str)
                return zstr(fn(s))
            if meth == "split":
                cs = const_str(recv)
                sep = const_str(args[0]) if args else None
                if cs is not None and (sep is not None or not args):
                    return st.alloc(HeapObj("list", "list", items=[zstr(p) for p in (cs.split(sep) if args else cs.split())]))
                fn = smt.ufunc("str.split", Str, Str, z3.SeqSort(Str))
                r = fn(s, self.to_z(st, args[0], T("str")).e if args else z3.StringVal(" "))
                st.axioms.append(z3.Length(r) >= 1)      # str.split(sep) never returns an empty list
                return Z(T("seq", (T("str"),)), r)
            if meth == "format":
                raise OutsideSubset("str.format")
            if meth in ("isupper", "isdigit", "isalpha"):
                fn = smt.ufunc("str." + meth, Str, Bool)
                return zbool(fn(s))
        if kind == "refdict" and meth == "items":
            # the (key, value) pairs of an open options dict: an unknown list of (str, value) pairs, a function of the dict
            tt = T("seq", (T("tuple", (T("str"), T("dyn"))),))
            fn = smt.ufunc("dict_items", Ref, tt.z3sort())
            return Z(tt, fn(recv.e))
        if kind == "refdict":
            # a dict with a fixed set of modelled keys (class model "dictlike"): d.get("k") reads the optional field k
            key = const_str(args[0]) if args else None
            ft = self.field_T(recv.t.cls, key) if key is not None else None
            if ft is None:
                raise OutsideSubset(f"dict key {key!r} of {recv.t.cls} is not modelled")
            val = self.read_field(st, recv.e, key, ft)
            if len(args) > 1 and isinstance(val, Union):
                return Union([(c, (args[1] if x is NONE else x)) for c, x in val.alts])
            return val
        if kind == "int":
            if meth == "bit_length":
                m = recv.e
                if not st.spec and not self.branch(st, m >= 0, "bitlen-nonneg"):
                    raise OutsideSubset("bit_length of a negative number")
                return zint(self.bitlen(st, m))
        if kind == "dyn":
            if meth == "get":
                k = self.to_z(st, args[0], T("str")).e
                val = z3.Select(smt.dyn_acc("DDict", 0, recv.e), k)
                default = args[1] if len(args) > 1 else NONE
                return self.merge(st, val != smt.dyn_ctor("DAbsent"), Z(T("dyn"), val), default)
        raise OutsideSubset(f"method {name}")
