"""CVC: symbolic execution of the real C (run-time can_signal_parser.c and the generated <device>_can.c) over the typed AST that
`clang -Xclang -ast-dump=json` produces, into z3 bit-vector terms.

What the translation assumes, exactly (listed in the evidence): little-endian host; CanFrame.data[8] read/written through a
(uint64_t *) pun is one 64-bit word; unions u_f32/u_f64 are bit patterns; bit-fields id:11 / dlc:4 are integers masked to their
width; float/double arguments that are literals are folded with IEEE semantics, symbolic float values are z3 FP terms; the
functions under contract are loop-free, so path enumeration over full-domain symbolic inputs is complete (no unrolling bound).
Everything outside the supported node kinds raises CUnsupported -> UNDECIDED, never a violation."""
from __future__ import annotations
import json, subprocess, os, struct, re
import z3


class CUnsupported(Exception):
    pass


INT_TYPES = {
    "uint8_t": (8, False), "uint16_t": (16, False), "uint32_t": (32, False), "uint64_t": (64, False),
    "int8_t": (8, True), "int16_t": (16, True), "int32_t": (32, True), "int64_t": (64, True),
    "unsigned char": (8, False), "signed char": (8, True), "char": (8, True), "unsigned short": (16, False), "short": (16, True),
    "unsigned int": (32, False), "int": (32, True), "unsigned long": (64, False), "long": (64, True),
    "unsigned long long": (64, False), "long long": (64, True), "bool": (1, False), "_Bool": (1, False), "size_t": (64, False),
    "__uint8_t": (8, False), "__uint16_t": (16, False), "__uint32_t": (32, False), "__uint64_t": (64, False),
    "__int8_t": (8, True), "__int16_t": (16, True), "__int32_t": (32, True), "__int64_t": (64, True),
}


def clean(t: str) -> str:
    t = t.replace("const ", "").replace("volatile ", "").replace("struct ", "").replace("enum ", "").strip()
    return t


class IV:
    """integer value: bit-vector of the C type's width"""
    __slots__ = ("e", "w", "s")

    def __init__(self, e, w, s):
        self.e, self.w, self.s = e, w, s


class FV:
    """floating value: python float when concrete, z3 FP term when symbolic"""
    __slots__ = ("v", "bits")

    def __init__(self, v, bits):
        self.v, self.bits = v, bits

    def concrete(self):
        return isinstance(self.v, float)

    def term(self):
        srt = z3.Float32() if self.bits == 32 else z3.Float64()
        return z3.FPVal(self.v, srt) if self.concrete() else self.v


class Ptr:
    def __init__(self, lv, as_type=None):
        self.lv, self.as_type = lv, as_type     # lv: tuple path ('var', frame, name) / (..., 'field', f) / (..., 'elem', i)


class FuncPtr:
    def __init__(self, name):
        self.name = name


class Ret(Exception):
    def __init__(self, v):
        self.v = v


class TU:
    def __init__(self, files, include_dirs):
        self.funcs, self.records, self.enums, self.typedefs = {}, {}, {}, {}
        self.sha = {}
        for f in files:
            cmd = ["clang", "-fsyntax-only", "-Xclang", "-ast-dump=json"] + [f"-I{d}" for d in include_dirs] + [f]
            p = subprocess.run(cmd, capture_output=True, text=True)
            if p.returncode != 0 and not p.stdout:
                raise CUnsupported(f"clang failed on {f}: {p.stderr[:500]}")
            self.compile_errors = getattr(self, "compile_errors", []) + ([p.stderr[:800]] if p.returncode != 0 else [])
            tree = json.loads(p.stdout)
            self._index(tree)

    def _index(self, tree):
        for n in tree.get("inner", []):
            k = n.get("kind")
            if k == "FunctionDecl" and any(c.get("kind") == "CompoundStmt" for c in n.get("inner", [])):
                self.funcs[n["name"]] = n
            elif k == "RecordDecl" and n.get("completeDefinition"):
                self._record(n)
            elif k == "TypedefDecl":
                inner = n.get("inner", [])
                self.typedefs[n["name"]] = clean(n["type"].get("desugaredQualType") or n["type"]["qualType"])
                if "EnumType" in json.dumps(inner)[:2000] or "enum " in (n["type"].get("desugaredQualType") or ""):
                    self.typedefs[n["name"]] = "unsigned int"      # enums are 32-bit unsigned ints for gcc/clang on this target
                # typedef struct {...} Name; : the record is anonymous, bind it to the typedef name
                for c in inner:
                    od = (c.get("ownedTagDecl") or {})
                    if od.get("id") in self._anon:
                        self.records[n["name"]] = self._anon[od["id"]]
                    for cc in c.get("inner", []):
                        d = cc.get("decl") or {}
                        if d.get("id") in self._anon:
                            self.records[n["name"]] = self._anon[d["id"]]
            elif k == "EnumDecl":
                vals = {}
                nxt = 0
                for c in n.get("inner", []):
                    if c.get("kind") == "EnumConstantDecl":
                        vals[c["name"]] = nxt
                        nxt += 1
                self.enums.update(vals)

    _anon = {}

    def _record(self, n):
        fields = []
        for c in n.get("inner", []):
            if c.get("kind") == "FieldDecl":
                bw = None
                if c.get("isBitfield"):
                    for cc in c.get("inner", []):
                        v = cc.get("value")
                        if v is None:
                            for c3 in cc.get("inner", []):
                                v = c3.get("value", v)
                        if v is not None:
                            bw = int(v)
                fields.append((c["name"], clean(c["type"].get("desugaredQualType") or c["type"]["qualType"]), bw))
        rec = {"fields": fields, "union": n.get("tagUsed") == "union"}
        if n.get("name"):
            self.records[n["name"]] = rec
        self._anon[n["id"]] = rec

    def resolve(self, t: str) -> str:
        t = clean(t)
        seen = 0
        while t in self.typedefs and t not in INT_TYPES and t not in self.records and seen < 10:
            t = self.typedefs[t]
            seen += 1
        return t


class CExec:
    """One path of one call tree. Branches on symbolic conditions go through `choose` (replayed decision prefixes)."""

    def __init__(self, tu: TU, prefix=()):
        self.tu = tu
        self.prefix, self.pos, self.trace, self.alts = list(prefix), 0, [], []
        self.pc = []
        self.statics = {}
        self.effects = []       # ('call', funcptr name, args...)
        self.frames = []
        self.solver_cache = {}
        self.depth = 0

    # ------------------------------------------------------------ types
    def tinfo(self, qt):
        t = self.tu.resolve(qt)
        if t in INT_TYPES:
            return ("int",) + INT_TYPES[t]
        if t == "float":
            return ("float", 32)
        if t == "double":
            return ("float", 64)
        if t.endswith("*"):
            return ("ptr", t[:-1].strip())
        m = re.match(r"^(.*)\[(\d+)\]$", t)
        if m:
            return ("array", m.group(1).strip(), int(m.group(2)))
        if t in self.tu.records:
            return ("record", t)
        if t in ("IntType",) or t.startswith("enum"):
            return ("int", 32, False)
        if "(*)" in t or t.endswith(")"):
            return ("funcptr",)
        if t == "void":
            return ("void",)
        raise CUnsupported(f"type {qt!r} -> {t!r}")

    def fresh_of(self, qt, name):
        ti = self.tinfo(qt)
        if ti[0] == "int":
            return IV(z3.BitVec(name, ti[1]), ti[1], ti[2])
        if ti[0] == "float":
            return FV(z3.FP(name, z3.Float32() if ti[1] == 32 else z3.Float64()), ti[1])
        if ti[0] == "record":
            return self.fresh_record(ti[1], name)
        if ti[0] == "array":
            return [self.fresh_of(ti[1], f"{name}_{i}") for i in range(ti[2])]
        raise CUnsupported(f"fresh value of {qt}")

    def fresh_record(self, rname, name):
        rec = self.tu.records[rname]
        if rec["union"]:
            w = max(self.tinfo(ft)[1] for _, ft, _ in rec["fields"])
            return {"__union": rname, "__bits": z3.BitVec(name + "_bits", w)}
        out = {"__record": rname}
        for fn, ft, bw in rec["fields"]:
            if ft == "uint8_t[8]" and rname == "CanFrame":
                out[fn] = IV(z3.BitVec(f"{name}_{fn}", 64), 64, False)      # data[8] as one little-endian 64-bit word
            elif bw is not None:
                full = self.tinfo(ft)
                out[fn] = IV(z3.ZeroExt(full[1] - bw, z3.BitVec(f"{name}_{fn}", bw)), full[1], full[2])
            else:
                out[fn] = self.fresh_of(ft, f"{name}_{fn}")
        return out

    def zero_of(self, qt):
        ti = self.tinfo(qt)
        if ti[0] == "int":
            return IV(z3.BitVecVal(0, ti[1]), ti[1], ti[2])
        if ti[0] == "float":
            return FV(0.0, ti[1])
        if ti[0] == "record":
            rec = self.tu.records[ti[1]]
            if rec["union"]:
                w = max(self.tinfo(ft)[1] for _, ft, _ in rec["fields"])
                return {"__union": ti[1], "__bits": z3.BitVecVal(0, w)}
            out = {"__record": ti[1]}
            for fn, ft, bw in rec["fields"]:
                if ft == "uint8_t[8]" and ti[1] == "CanFrame":
                    out[fn] = IV(z3.BitVecVal(0, 64), 64, False)
                else:
                    out[fn] = self.zero_of(ft)
            return out
        if ti[0] == "array":
            return [self.zero_of(ti[1]) for _ in range(ti[2])]
        if ti[0] == "ptr":
            return None
        raise CUnsupported(f"zero of {qt}")

    # ------------------------------------------------------------ branching
    def choose(self, cond) -> bool:
        c = z3.simplify(cond)
        if z3.is_true(c):
            return True
        if z3.is_false(c):
            return False
        ft, ff = self.feasible(c), self.feasible(z3.Not(c))
        if ft and not ff:
            return True
        if ff and not ft:
            return False
        if not ft and not ff:
            raise Infeasible()
        if self.pos < len(self.prefix):
            k = self.prefix[self.pos]
        else:
            k = True
            self.alts.append(self.trace + [False])
        self.trace.append(k)
        self.pos += 1
        self.pc.append(c if k else z3.Not(c))
        return k

    def feasible(self, c):
        s = z3.Solver()
        s.set("timeout", 2000)
        for p in self.pc:
            s.add(p)
        s.add(c)
        return s.check() != z3.unsat

    # ------------------------------------------------------------ conversions
    def cast_int(self, v, w, s):
        if isinstance(v, IV):
            if v.w == w:
                return IV(v.e, w, s)
            if v.w > w:
                return IV(z3.Extract(w - 1, 0, v.e), w, s)
            return IV(z3.SignExt(w - v.w, v.e) if v.s else z3.ZeroExt(w - v.w, v.e), w, s)
        if isinstance(v, FV):
            if v.concrete():
                return IV(z3.BitVecVal(int(v.v), w), w, s)
            raise CUnsupported("symbolic float to integer conversion")
        raise CUnsupported(f"cast to int of {v!r}")

    def to_bool(self, v):
        if isinstance(v, IV):
            return v.e != 0
        if isinstance(v, FV):
            if v.concrete():
                return z3.BoolVal(v.v != 0.0)
            return z3.Not(z3.fpIsZero(v.term()))
        if isinstance(v, (Ptr, FuncPtr)):
            return z3.BoolVal(True)
        raise CUnsupported("truth value")

    def from_bool(self, b):
        return IV(z3.If(b, z3.BitVecVal(1, 32), z3.BitVecVal(0, 32)), 32, True)

    # ------------------------------------------------------------ lvalues
    def load(self, lv):
        if lv[0] == "var":
            return self.frames[lv[1]][lv[2]]
        if lv[0] == "static":
            return self.statics[lv[1]]
        base = self.load(lv[0])
        if lv[1] == "field":
            if isinstance(base, dict) and "__union" in base:
                return self.union_read(base, lv[2])
            return base[lv[2]]
        if lv[1] == "elem":
            return base[lv[2]]
        if lv[1] == "as64":
            return base
        raise CUnsupported("load")

    def store(self, lv, val):
        if lv[0] == "var":
            self.frames[lv[1]][lv[2]] = val
            return
        if lv[0] == "static":
            self.statics[lv[1]] = val
            return
        base = self.load(lv[0])
        if lv[1] == "field":
            if isinstance(base, dict) and "__union" in base:
                self.union_write(base, lv[2], val)
            else:
                rec = self.tu.records.get(base.get("__record"))
                bw = next((b for n, t, b in rec["fields"] if n == lv[2]), None) if rec else None
                if bw is not None and isinstance(val, IV):
                    val = IV(z3.ZeroExt(val.w - bw, z3.Extract(bw - 1, 0, val.e)), val.w, val.s)
                base[lv[2]] = val
            return
        if lv[1] == "elem":
            base[lv[2]] = val
            return
        if lv[1] == "as64":
            self.store(lv[0], self.cast_int(val, 64, False))
            return
        raise CUnsupported("store")

    def union_read(self, u, f):
        rec = self.tu.records[u["__union"]]
        ft = next(t for n, t, _ in rec["fields"] if n == f)
        ti = self.tinfo(ft)
        bits = u["__bits"]
        if ti[0] == "int":
            return IV(z3.Extract(ti[1] - 1, 0, bits) if bits.size() > ti[1] else bits, ti[1], ti[2])
        if ti[0] == "float":
            b = z3.simplify(z3.Extract(ti[1] - 1, 0, bits) if bits.size() > ti[1] else bits)
            if z3.is_bv_value(b):
                raw = b.as_long()
                return FV(struct.unpack("<f" if ti[1] == 32 else "<d", raw.to_bytes(ti[1] // 8, "little"))[0], ti[1])
            return FV(z3.fpBVToFP(b, z3.Float32() if ti[1] == 32 else z3.Float64()), ti[1])
        raise CUnsupported("union member type")

    def union_write(self, u, f, val):
        rec = self.tu.records[u["__union"]]
        ft = next(t for n, t, _ in rec["fields"] if n == f)
        ti = self.tinfo(ft)
        w = u["__bits"].size()
        if ti[0] == "int":
            e = self.cast_int(val, ti[1], ti[2]).e
        else:
            e = self.float_bits(val if isinstance(val, FV) else FV(float(val), ti[1]), ti[1])
        u["__bits"] = e if e.size() == w else z3.Concat(z3.Extract(w - 1, e.size(), u["__bits"]), e)

    def float_bits(self, fv: FV, bits):
        if fv.concrete():
            raw = int.from_bytes(struct.pack("<f" if bits == 32 else "<d", fv.v), "little")
            return z3.BitVecVal(raw, bits)
        return z3.fpToIEEEBV(fv.term())

    # ------------------------------------------------------------ statements
    def call(self, name, args):
        fn = self.tu.funcs.get(name)
        if fn is None:
            raise CUnsupported(f"call to undefined function {name}")
        if self.depth > 30:
            raise CUnsupported("call depth")
        params = [c for c in fn.get("inner", []) if c.get("kind") == "ParmVarDecl"]
        body = next(c for c in fn["inner"] if c.get("kind") == "CompoundStmt")
        frame = {}
        for p, a in zip(params, args):
            frame[p["name"]] = self.coerce(a, p["type"].get("desugaredQualType") or p["type"]["qualType"])
        self.frames.append(frame)
        self.fnames = getattr(self, "fnames", []) + [name]
        self.depth += 1
        try:
            self.exec(body)
            return None
        except Ret as r:
            rt = fn["type"]["qualType"].split("(")[0].strip()
            return self.coerce(r.v, rt) if r.v is not None and rt != "void" else r.v
        finally:
            self.depth -= 1
            self.fnames.pop()
            self.frames.pop()

    def coerce(self, v, qt):
        ti = self.tinfo(qt)
        if ti[0] == "int" and isinstance(v, (IV, FV)):
            return self.cast_int(v, ti[1], ti[2])
        if ti[0] == "float":
            return self.to_float(v, ti[1])
        return v

    def to_float(self, v, bits):
        if isinstance(v, FV):
            if v.bits == bits:
                return v
            if v.concrete():
                return FV(struct.unpack("<f", struct.pack("<f", v.v))[0] if bits == 32 else float(v.v), bits)
            return FV(z3.fpFPToFP(z3.RNE(), v.term(), z3.Float32() if bits == 32 else z3.Float64()), bits)
        if isinstance(v, IV):
            c = z3.simplify(v.e)
            if z3.is_bv_value(c):
                x = c.as_signed_long() if v.s else c.as_long()
                return FV(float(x), bits)
            raise CUnsupported("symbolic integer to float conversion")
        raise CUnsupported("to float")

    def exec(self, n):
        k = n.get("kind")
        if k == "CompoundStmt":
            for c in n.get("inner", []):
                self.exec(c)
        elif k == "DeclStmt":
            for c in n.get("inner", []):
                self.decl(c)
        elif k == "ReturnStmt":
            inner = n.get("inner", [])
            raise Ret(self.ev(inner[0]) if inner else None)
        elif k == "IfStmt":
            inner = n["inner"]
            c = self.to_bool(self.ev(inner[0]))
            if self.choose(c):
                self.exec(inner[1])
            elif len(inner) > 2:
                self.exec(inner[2])
        elif k == "NullStmt":
            pass
        elif k == "SwitchStmt":
            self.switch(n)
        else:
            self.ev(n)

    def switch(self, n):
        cond = self.ev(n["inner"][0])
        body = n["inner"][1]
        cases = []
        cur = None
        for c in body.get("inner", []):
            if c.get("kind") == "CaseStmt":
                val = self.ev(c["inner"][0])
                cases.append((val, c["inner"][-1]))
            elif c.get("kind") == "DefaultStmt":
                cases.append((None, c["inner"][-1]))
            else:
                raise CUnsupported("switch body statement outside a case")
        for val, stmt in cases:
            if val is None or self.choose(cond.e == self.cast_int(val, cond.w, cond.s).e):
                self.exec(stmt)      # every case of the code under contract returns
                return

    def decl(self, d):
        if d.get("kind") != "VarDecl":
            return
        qt = d["type"].get("desugaredQualType") or d["type"]["qualType"]
        inner = [c for c in d.get("inner", []) if c.get("kind") not in ("FullComment",)]
        if d.get("storageClass") == "static":
            key = (self.fnames[-1], d["name"])
            if key not in self.statics:
                self.statics[key] = self.initial_static(key, qt, inner)
            self.frames[-1][d["name"]] = ("__static__", key)
            return
        if inner:
            v = self.ev_init(inner[0], qt)
        else:
            v = self.fresh_of(qt, f"uninit_{d['name']}")
        self.frames[-1][d["name"]] = self.coerce(v, qt) if not isinstance(v, (dict, list)) else v

    def initial_static(self, key, qt, inner):
        pre = getattr(self, "static_init", {}).get(key)
        if pre is not None:
            return list(pre) if isinstance(pre, list) else pre      # per-path copy: stores mutate arrays in place
        if inner:
            return self.ev_init(inner[0], qt)
        return self.zero_of(qt)

    def ev_init(self, n, qt):
        if n.get("kind") == "InitListExpr":
            ti = self.tinfo(qt)
            val = self.zero_of(qt)
            if ti[0] == "record":
                rec = self.tu.records[ti[1]]
                if rec["union"]:
                    fld = (n.get("field") or {}).get("name") or rec["fields"][0][0]
                    ins = [c for c in n.get("inner", [])]
                    if ins:
                        self.union_write(val, fld, self.ev(ins[0]))
                    return val
                names = [f for f, _, _ in rec["fields"]]
                i = 0
                for c in n.get("inner", []):
                    if c.get("kind") == "ImplicitValueInitExpr":
                        i += 1
                        continue
                    ft = rec["fields"][i][1]
                    v = self.ev_init(c, ft) if c.get("kind") == "InitListExpr" else self.coerce(self.ev(c), ft)
                    bw = rec["fields"][i][2]
                    if bw is not None and isinstance(v, IV):
                        v = IV(z3.ZeroExt(v.w - bw, z3.Extract(bw - 1, 0, v.e)), v.w, v.s)
                    val[names[i]] = v
                    i += 1
                return val
            if ti[0] == "array":
                for i, c in enumerate(n.get("inner", [])):
                    if c.get("kind") == "ImplicitValueInitExpr" or i >= len(val):
                        continue
                    val[i] = self.coerce(self.ev(c), ti[1])
                return val
            ins = n.get("inner", [])
            return self.ev(ins[0]) if ins else val
        return self.ev(n)

    # ------------------------------------------------------------ expressions
    def ev(self, n):
        k = n.get("kind")
        m = getattr(self, "e_" + k, None)
        if m is None:
            raise CUnsupported(f"C node {k}")
        return m(n)

    def e_ParenExpr(self, n):
        return self.ev(n["inner"][0])

    def e_ConstantExpr(self, n):
        return self.ev(n["inner"][0])

    def e_IntegerLiteral(self, n):
        ti = self.tinfo(n["type"]["qualType"])
        sub = getattr(self, "literal_subst", None)
        if sub and int(n["value"]) in sub and ti[1] == 32:
            return sub[int(n["value"])]      # a sentinel literal standing for a symbolic compile-time constant (see ccheck)
        return IV(z3.BitVecVal(int(n["value"]), ti[1]), ti[1], ti[2])

    def e_FloatingLiteral(self, n):
        ti = self.tinfo(n["type"]["qualType"])
        return FV(float(n["value"]), ti[1])

    def e_CXXBoolLiteralExpr(self, n):
        return IV(z3.BitVecVal(1 if n.get("value") else 0, 1), 1, False)

    def lvalue(self, n):
        k = n.get("kind")
        if k == "ParenExpr":
            return self.lvalue(n["inner"][0])
        if k == "DeclRefExpr":
            name = n["referencedDecl"]["name"]
            cur = self.frames[-1].get(name)
            if isinstance(cur, tuple) and cur and cur[0] == "__static__":
                return ("static", cur[1])
            if name in self.frames[-1]:
                return ("var", len(self.frames) - 1, name)
            raise CUnsupported(f"lvalue of {name}")
        if k == "MemberExpr":
            base = n["inner"][0]
            if n.get("isArrow"):
                p = self.ev(base)
                if not isinstance(p, Ptr):
                    raise CUnsupported("-> on non-pointer")
                return (p.lv, "field", n["name"])
            return (self.lvalue(base), "field", n["name"])
        if k == "ArraySubscriptExpr":
            base, idx = n["inner"]
            i = z3.simplify(self.ev(idx).e)
            if not z3.is_bv_value(i):
                raise CUnsupported("symbolic array index in an lvalue")
            b = base
            while b.get("kind") in ("ImplicitCastExpr", "ParenExpr"):
                b = b["inner"][0]
            return (self.lvalue(b), "elem", i.as_long())
        if k == "UnaryOperator" and n.get("opcode") == "*":
            p = self.ev(n["inner"][0])
            if not isinstance(p, Ptr):
                raise CUnsupported("deref of non-pointer")
            if p.as_type == "uint64_t":
                return (p.lv, "as64")
            return p.lv
        if k in ("ImplicitCastExpr", "CStyleCastExpr") and n.get("castKind") in ("NoOp", "LValueBitCast"):
            return self.lvalue(n["inner"][0])
        raise CUnsupported(f"lvalue of {k}")

    def e_DeclRefExpr(self, n):
        rd = n["referencedDecl"]
        if rd.get("kind") == "EnumConstantDecl":
            return IV(z3.BitVecVal(self.tu.enums[rd["name"]], 32), 32, False)
        if rd.get("kind") == "FunctionDecl":
            return FuncPtr(rd["name"])
        return ("__lv__", self.lvalue(n))

    def rvalue(self, v):
        if isinstance(v, tuple) and v and v[0] == "__lv__":
            return self.load(v[1])
        return v

    def e_MemberExpr(self, n):
        return ("__lv__", self.lvalue(n))

    def e_ArraySubscriptExpr(self, n):
        base, idx = n["inner"]
        b = base
        while b.get("kind") in ("ImplicitCastExpr", "ParenExpr"):
            b = b["inner"][0]
        arr = self.rvalue(self.ev(b))
        i = self.rvalue(self.ev(idx))
        c = z3.simplify(i.e)
        if z3.is_bv_value(c):
            return ("__lv__", (self.lvalue(b), "elem", c.as_long()))
        # symbolic index into a constant table: ite chain over the real initialiser
        if not isinstance(arr, list) or not all(isinstance(x, IV) for x in arr):
            raise CUnsupported("symbolic index into a non-constant array")
        out = arr[-1].e
        for j in range(len(arr) - 2, -1, -1):
            out = z3.If(i.e == j, arr[j].e, out)
        return IV(out, arr[0].w, arr[0].s)

    def e_ImplicitCastExpr(self, n):
        ck = n.get("castKind")
        sub = n["inner"][0]
        qt = n["type"].get("desugaredQualType") or n["type"]["qualType"]
        if ck == "LValueToRValue":
            return self.rvalue(self.ev(sub))
        if ck in ("NoOp", "FunctionToPointerDecay", "BuiltinFnToFnPtr"):
            return self.ev(sub)
        if ck == "ArrayToPointerDecay":
            return Ptr(self.lvalue(sub), "array")
        if ck == "IntegralCast":
            ti = self.tinfo(qt)
            return self.cast_int(self.rvalue(self.ev(sub)), ti[1], ti[2])
        if ck == "IntegralToBoolean":
            return IV(z3.If(self.to_bool(self.rvalue(self.ev(sub))), z3.BitVecVal(1, 1), z3.BitVecVal(0, 1)), 1, False)
        if ck in ("FloatingCast", "IntegralToFloating"):
            return self.to_float(self.rvalue(self.ev(sub)), self.tinfo(qt)[1])
        if ck == "FloatingToIntegral":
            ti = self.tinfo(qt)
            return self.cast_int(self.rvalue(self.ev(sub)), ti[1], ti[2])
        if ck == "BitCast":
            p = self.rvalue(self.ev(sub))
            if isinstance(p, Ptr):
                pointee = self.tu.resolve(self.tinfo(qt)[1]) if self.tinfo(qt)[0] == "ptr" else None
                return Ptr(p.lv, pointee)
            raise CUnsupported("bit cast of a non-pointer")
        if ck == "NullToPointer":
            return None
        raise CUnsupported(f"cast kind {ck}")

    e_CStyleCastExpr = e_ImplicitCastExpr

    def e_UnaryOperator(self, n):
        op = n["opcode"]
        sub = n["inner"][0]
        if op == "&":
            return Ptr(self.lvalue(sub))
        if op == "*":
            p = self.rvalue(self.ev(sub))
            if not isinstance(p, Ptr):
                raise CUnsupported("deref")
            if p.as_type == "uint64_t":
                return ("__lv__", (p.lv, "as64"))
            if p.as_type in ("float", "double") or p.as_type in ("uint32_t",):
                # *(float *)&word  /  *(uint32_t *)&f : reinterpretation of the bit pattern
                v = self.load(p.lv)
                if p.as_type in ("float", "double"):
                    bits = 32 if p.as_type == "float" else 64
                    e = z3.simplify(self.cast_int(v, bits, False).e)
                    if z3.is_bv_value(e):
                        return FV(struct.unpack("<f" if bits == 32 else "<d", e.as_long().to_bytes(bits // 8, "little"))[0], bits)
                    return FV(z3.fpBVToFP(e, z3.Float32() if bits == 32 else z3.Float64()), bits)
                return IV(self.float_bits(v, 32), 32, False)
            return ("__lv__", p.lv)
        v = self.rvalue(self.ev(sub))
        if op == "-":
            if isinstance(v, FV):
                return FV(-v.v if v.concrete() else z3.fpNeg(v.term()), v.bits)
            return IV(-v.e, v.w, v.s)
        if op == "~":
            return IV(~v.e, v.w, v.s)
        if op == "!":
            return self.from_bool(z3.Not(self.to_bool(v)))
        raise CUnsupported(f"unary {op}")

    def e_BinaryOperator(self, n):
        op = n["opcode"]
        l, r = n["inner"]
        if op == "=":
            lv = self.lvalue(l)
            v = self.rvalue(self.ev(r))
            qt = l["type"].get("desugaredQualType") or l["type"]["qualType"]
            self.store(lv, self.coerce(v, qt) if not isinstance(v, (dict, list)) else v)
            return v
        if op == "&&":
            a = self.to_bool(self.rvalue(self.ev(l)))
            if not self.choose(a):
                return self.from_bool(z3.BoolVal(False))
            return self.from_bool(self.to_bool(self.rvalue(self.ev(r))))
        if op == "||":
            a = self.to_bool(self.rvalue(self.ev(l)))
            if self.choose(a):
                return self.from_bool(z3.BoolVal(True))
            return self.from_bool(self.to_bool(self.rvalue(self.ev(r))))
        a, b = self.rvalue(self.ev(l)), self.rvalue(self.ev(r))
        if isinstance(a, FV) or isinstance(b, FV):
            return self.float_op(op, a, b, n)
        if a.w != b.w and op not in ("<<", ">>"):
            raise CUnsupported("operands of different width after promotion")
        s = a.s
        if op == "+":
            return IV(a.e + b.e, a.w, s)
        if op == "-":
            return IV(a.e - b.e, a.w, s)
        if op == "*":
            return IV(a.e * b.e, a.w, s)
        if op == "&":
            return IV(a.e & b.e, a.w, s)
        if op == "|":
            return IV(a.e | b.e, a.w, s)
        if op == "^":
            return IV(a.e ^ b.e, a.w, s)
        if op in ("<<", ">>"):
            sh = self.cast_int(b, a.w, False).e
            if op == "<<":
                return IV(a.e << sh, a.w, s)
            return IV(a.e >> sh if s else z3.LShR(a.e, sh), a.w, s)
        cmp = {"==": lambda: a.e == b.e, "!=": lambda: a.e != b.e,
               "<": lambda: (a.e < b.e) if s else z3.ULT(a.e, b.e), "<=": lambda: (a.e <= b.e) if s else z3.ULE(a.e, b.e),
               ">": lambda: (a.e > b.e) if s else z3.UGT(a.e, b.e), ">=": lambda: (a.e >= b.e) if s else z3.UGE(a.e, b.e)}
        if op in cmp:
            return self.from_bool(cmp[op]())
        if op == "/":
            return IV(a.e / b.e if s else z3.UDiv(a.e, b.e), a.w, s)
        raise CUnsupported(f"binary {op}")

    def float_op(self, op, a, b, n):
        qt = n["type"].get("desugaredQualType") or n["type"]["qualType"]
        bits = max(x.bits for x in (a, b) if isinstance(x, FV))
        a, b = self.to_float(a, bits), self.to_float(b, bits)
        if a.concrete() and b.concrete():
            f = {"+": lambda: a.v + b.v, "-": lambda: a.v - b.v, "*": lambda: a.v * b.v, "/": lambda: a.v / b.v}
            if op in f:
                v = f[op]()
                if bits == 32:
                    v = struct.unpack("<f", struct.pack("<f", v))[0]
                return FV(v, bits)
            c = {"==": a.v == b.v, "!=": a.v != b.v, "<": a.v < b.v, "<=": a.v <= b.v, ">": a.v > b.v, ">=": a.v >= b.v}
            return self.from_bool(z3.BoolVal(c[op]))
        ta, tb = a.term(), b.term()
        rm = z3.RNE()
        if op == "+":
            return FV(z3.fpAdd(rm, ta, tb), bits)
        if op == "-":
            return FV(z3.fpSub(rm, ta, tb), bits)
        if op == "*":
            return FV(z3.fpMul(rm, ta, tb), bits)
        if op == "/":
            return FV(z3.fpDiv(rm, ta, tb), bits)
        if op == "==":
            return self.from_bool(z3.fpEQ(ta, tb))
        if op == "!=":
            return self.from_bool(z3.Not(z3.fpEQ(ta, tb)))
        raise CUnsupported(f"float {op}")

    def e_CompoundAssignOperator(self, n):
        op = n["opcode"][:-1]
        l, r = n["inner"]
        lv = self.lvalue(l)
        a = self.load(lv)
        b = self.rvalue(self.ev(r))
        ct = n.get("computeResultType", {}).get("qualType") or l["type"]["qualType"]
        ti = self.tinfo(ct)
        a2, b2 = self.cast_int(a, ti[1], ti[2]), self.cast_int(b, ti[1], ti[2])
        e = {"|": a2.e | b2.e, "&": a2.e & b2.e, "+": a2.e + b2.e, "-": a2.e - b2.e, "^": a2.e ^ b2.e}.get(op)
        if e is None:
            raise CUnsupported(f"compound assignment {op}")
        lt = self.tinfo(l["type"].get("desugaredQualType") or l["type"]["qualType"])
        self.store(lv, self.cast_int(IV(e, ti[1], ti[2]), lt[1], lt[2]))
        return self.load(lv)

    def e_ConditionalOperator(self, n):
        c, a, b = n["inner"]
        if self.choose(self.to_bool(self.rvalue(self.ev(c)))):
            return self.rvalue(self.ev(a))
        return self.rvalue(self.ev(b))

    def e_UnaryExprOrTypeTraitExpr(self, n):
        if n.get("name") != "sizeof":
            raise CUnsupported("type trait")
        at = n.get("argType", {}).get("qualType")
        if at is None:
            at = n["inner"][0]["type"]["qualType"]
        return IV(z3.BitVecVal(self.sizeof(at), 64), 64, False)

    def sizeof(self, qt):
        ti = self.tinfo(qt)
        if ti[0] == "int":
            return max(1, ti[1] // 8)
        if ti[0] == "float":
            return ti[1] // 8
        if ti[0] == "array":
            return ti[2] * self.sizeof(ti[1])
        raise CUnsupported("sizeof")

    def e_CallExpr(self, n):
        callee = self.rvalue(self.ev(n["inner"][0]))
        args = [self.rvalue(self.ev(a)) for a in n["inner"][1:]]
        if isinstance(callee, FuncPtr):
            if callee.name == "memcpy":
                dst, src, cnt = args
                self.store(dst.lv, self.load(src.lv))
                return dst
            return self.call(callee.name, args)
        if isinstance(callee, tuple) and callee and callee[0] == "__callback__":
            # a function pointer parameter: the call is an observable effect; by-pointer arguments are snapshotted
            snap = []
            for a in args:
                if isinstance(a, Ptr):
                    v = self.load(a.lv)
                    snap.append(dict(v) if isinstance(v, dict) else v)
                else:
                    snap.append(a)
            self.effects.append((callee[1], snap))
            return None
        raise CUnsupported(f"call through {callee!r}")

    def e_InitListExpr(self, n):
        return self.ev_init(n, n["type"].get("desugaredQualType") or n["type"]["qualType"])

    def e_ImplicitValueInitExpr(self, n):
        return self.zero_of(n["type"]["qualType"])


class Infeasible(Exception):
    pass


def explore(tu: TU, fname, make_args, static_init=None, max_paths=512, literal_subst=None):
    """All paths of fname on the arguments built by make_args(exec). -> list of dict(pc, ret, effects, statics, exec)"""
    out = []
    pending = [[]]
    while pending:
        if len(out) > max_paths:
            raise CUnsupported("path budget")
        prefix = pending.pop()
        ex = CExec(tu, prefix)
        ex.static_init = static_init or {}
        ex.literal_subst = literal_subst
        try:
            args = make_args(ex)
            ret = ex.call(fname, args)
            out.append({"pc": list(ex.pc), "ret": ret, "effects": ex.effects, "statics": dict(ex.statics), "ex": ex})
        except Infeasible:
            pass
        except (CUnsupported, Ret):
            raise
        except (AttributeError, KeyError, TypeError, IndexError, ValueError, z3.Z3Exception) as e:
            # a construct the symbolic executor has no model for (pointer arithmetic, memcpy, ...): undecided, never a verdict
            raise CUnsupported(f"no model for a construct in {fname}: {type(e).__name__}: {e}")
        pending += ex.alts
    return out


def merged_ret(paths):
    """ite-merge of the integer return values over the (exhaustive, exclusive) path conditions"""
    r = paths[-1]["ret"]
    e = r.e
    for p in reversed(paths[:-1]):
        e = z3.If(z3.And(p["pc"]) if p["pc"] else z3.BoolVal(True), p["ret"].e, e)
    return IV(e, r.w, r.s)
