"""vcheck: decide one property.  Exit codes: 0 held / 1 VIOLATION / 2 UNDECIDED / 3 checker broken."""
from __future__ import annotations
import os, sys, json, time, subprocess, hashlib, glob, argparse, traceback

VERIF = os.path.dirname(os.path.dirname(os.path.abspath(__file__)))
REPO = os.environ.get("VERIF_REPO", "/repo")
VENV_PY = "/venv/bin/python"


def load_kf():
    p = os.path.join(VERIF, "known_findings.json")
    if not os.path.exists(p):
        return {"findings": [], "fixed": []}
    return json.load(open(p))


def native(mod, args, timeout=900):
    """Run a native oracle module under the repo's interpreter against the real code. -> parsed JSON or None"""
    env = dict(os.environ)
    env["PYTHONPATH"] = os.pathsep.join([VERIF, os.path.join(REPO, "src"), os.path.join(REPO, "plugins/fcp_dbc"),
                                         os.path.join(REPO, "plugins/fcp_can_c"), os.path.join(REPO, "plugins/fcp_cpp"),
                                         os.path.join(REPO, "plugins/fcp_nop")])
    env["VERIF_REPO"] = REPO
    cmd = [VENV_PY, "-m", "native." + mod] + args
    try:
        p = subprocess.run(cmd, cwd=VERIF, env=env, capture_output=True, text=True, timeout=timeout)
    except subprocess.TimeoutExpired:
        return {"error": "native oracle timed out"}
    out = p.stdout.strip().split("\n")
    for line in reversed(out):
        if line.startswith("{"):
            try:
                return json.loads(line)
            except Exception:
                pass
    return {"error": "native oracle produced no JSON", "stdout": p.stdout[-2000:], "stderr": p.stderr[-2000:], "rc": p.returncode}


def main(argv=None):
    ap = argparse.ArgumentParser(prog="vcheck")
    ap.add_argument("prop")
    ap.add_argument("--tier", default=os.environ.get("VERIF_TIER", "quick"))
    ap.add_argument("--jobs", type=int, default=int(os.environ.get("VERIF_JOBS", "16")))
    ap.add_argument("path", nargs="?")
    a = ap.parse_args(argv)
    if a.prop == "replay":
        return replay(a.path)
    seed = int(os.environ.get("VERIF_SEED", "0") or 0)
    t0 = time.time()
    if a.prop in ("C06", "C19"):
        from pv import ccheck
        try:
            return ccheck.main(a.prop, a.tier, seed)
        except Exception:
            traceback.print_exc()
            print(f"CHECKER-ERROR property={a.prop}")
            return 3
    from pv import plans
    plan = plans.PLANS.get(a.prop)
    if plan is None:
        print(f"no plan for {a.prop}")
        return 3
    try:
        return run_property(a.prop, plan, a.tier, seed, a.jobs, t0)
    except Exception:
        traceback.print_exc()
        print(f"CHECKER-ERROR property={a.prop}")
        return 3


def run_property(pid, plan, tier, seed, jobs, t0):
    from pv import run as prun
    timeout_ms = 10000 if tier == "quick" else 60000
    kf = load_kf()
    my_kf = [f for f in kf.get("findings", []) if f["property"] == pid or pid in f.get("also", [])]
    # ---- known-finding witnesses are re-run on the real code first
    active = []
    lines = []
    for f in my_kf:
        r = native(f["native"], ["witness", f["id"]])
        if r and r.get("fails"):
            active.append(f)
            lines.append(f"KNOWN-FINDING: property={pid} {f['what']} [witness: {f['witness']}]")
        elif r and r.get("error"):
            print("native witness error:", json.dumps(r)[:1500])
            return 3
    # ---- regression witnesses of repaired findings whose code is not under contract: re-run on the real code (a fixed entry
    #      suppresses nothing: if the failure is back it is reported as a violation, with the failing input)
    regress = []
    for fx in kf.get("fixed", []):
        if fx.get("property") == pid and fx.get("native") and fx.get("witness_id"):
            r = native(fx["native"], ["witness", fx["witness_id"]])
            if r and r.get("fails"):
                regress.append((fx, r))
            elif r and r.get("error"):
                print("native witness error:", json.dumps(r)[:1500])
                return 3
    regions = {}
    for f in active:
        for ob, reg in (f.get("regions") or {}).items():
            regions[ob] = reg
    os.environ["VERIF_KF_REGIONS"] = json.dumps(regions)
    targets = plan["targets"]
    from pv import plans as _plans
    reports = prun.run_targets(targets, timeout_ms=timeout_ms, jobs=jobs, group=plan.get("recursion_group"), slow=_plans.SLOW)
    # ---- verdict
    n_obl = n_ok = 0
    refuted, unknown, errors = [], [], []
    funcs = []
    assumed = set()
    solver_s = 0.0
    samples = []
    for r in reports:
        if r.get("error"):
            errors.append((r["target"], r["error"], r.get("crash")))
        for u in r.get("undecided", []):
            unknown.append((r["target"], "outside-subset", u))
        if r.get("canary") == "unsat":
            errors.append((r["target"], "vacuous: no exit path is satisfiable", None))
        if not r.get("obligations") and not r.get("undecided") and r.get("kind") != "assumed":
            errors.append((r["target"], "zero obligations", None))
        for n, o in r.get("obligations", {}).items():
            n_obl += 1
            if o["verdict"] == "proved":
                n_ok += 1
            elif o["verdict"] == "refuted":
                refuted.append((r["target"], n, o))
            else:
                unknown.append((r["target"], n, o))
            if len(samples) < 6 and o["queries"] > 0:
                samples.append({"obligation": n, "kind": o["kind"], "verdict": o["verdict"], "queries": o["queries"],
                                "solver_s": o["solver_s"], "backend": o["backend"]})
        solver_s += r.get("solver_s", 0) or 0
        for x in r.get("assumed_used", []):
            assumed.add(x)
        funcs.append({"function": r["target"], "kind": r.get("kind"), "file": r.get("file"), "source_sha": r.get("source_sha"),
                      "paths": r.get("paths"), "obligations": len(r.get("obligations", {})), "canary": r.get("canary"),
                      "wall_s": r.get("wall"),
                      "slowest_query_s": max([o.get("max_piece_s", 0) or 0 for o in r.get("obligations", {}).values()] or [0])})
    for ln in lines:
        print(ln)
    rc = 0
    violations = 0
    os.makedirs(os.path.join(VERIF, "replays", pid), exist_ok=True)
    for fx, r in regress:
        path = os.path.join("replays", pid, "regression_" + fx["witness_id"] + ".json")
        json.dump({"property": pid, "obligation": "regression witness of repaired finding " + fx["witness_id"], "fixed_entry": fx.get("entry"),
                   "native": fx["native"], "reproduced": True, "failing_input": {"witness": fx.get("witness"), "scenario": "clash"},
                   "native_note": r.get("failure")}, open(os.path.join(VERIF, path), "w"), indent=1, default=str)
        print(f"VIOLATION property={pid} replay={path}")
        violations += 1
        rc = 1
    if errors:
        for t, e, c in errors:
            print(f"CHECKER-ERROR property={pid} function={t} {e}")
            if c:
                print(c)
        rc = 3
    failing = refuted + [u for u in unknown if isinstance(u[2], dict)]
    if rc == 0 and (refuted or unknown):
        # ---- replay: directed native search over boundary inputs of the property's observers
        nat = None
        if plan.get("native"):
            nat = native(plan["native"], ["search", pid, str(seed), tier] + [f["id"] for f in active])
        found = bool(nat and nat.get("failure"))
        if refuted or found:
            for (t, n, o) in (refuted or failing[:1] or [(unknown[0][0], unknown[0][1], {})]):
                path = os.path.join("replays", pid, hashlib.sha1(n.encode()).hexdigest()[:12] + ".json")
                rec = {"property": pid, "obligation": n, "function": t, "verdict": o.get("verdict") if isinstance(o, dict) else "undecided",
                       "solver_detail": o.get("detail") if isinstance(o, dict) else o,
                       "native": plan.get("native"), "reproduced": found, "failing_input": (nat or {}).get("failure"),
                       "native_note": (nat or {}).get("note") or (nat or {}).get("error")}
                json.dump(rec, open(os.path.join(VERIF, path), "w"), indent=1, default=str)
                print(f"VIOLATION property={pid} replay={path}" + ("" if found else " no-failing-input-found"))
                violations += 1
            rc = 1
        else:
            for (t, n, o) in unknown:
                why = o if isinstance(o, str) else (o.get("detail") or {}).get("reason", "unknown")
                print(f"UNDECIDED property={pid} obligation={n} reason={str(why)[:200]}")
            rc = 2
    # ---- evidence
    ev = {
        "property_id": pid, "tier": tier, "seed": seed, "level": "proof",
        "coverage": {
            "obligations": n_obl, "discharged": n_ok,
            "checker_cmd": f"./vcheck {pid} --tier {tier}",
            "trusted_base": plan.get("trusted", []) + sorted("assumed contract: " + x for x in assumed),
            "functions_under_contract": funcs,
            "backends": "z3 5.1.0 (python API); unknowns retried on /usr/bin/z3 4.8.12 and cvc5 1.0.3",
            "solver_s": round(solver_s, 2),
            "samples": samples,
            "known_findings_active": [f["id"] for f in active],
            "not_discharged": [{"function": t, "obligation": n, "verdict": (o.get("verdict") if isinstance(o, dict) else "undecided")} for t, n, o in refuted + unknown][:40],
            "explanation": plan.get("explanation", ""),
        },
        "assumptions": plan.get("assumptions", []),
        "wall_s": round(time.time() - t0, 2),
        "violations": violations,
    }
    os.makedirs(os.path.join(VERIF, "evidence"), exist_ok=True)
    json.dump(ev, open(os.path.join(VERIF, "evidence", pid + ".json"), "w"), indent=1)
    print(f"{pid}: obligations={n_obl} discharged={n_ok} refuted={len(refuted)} undecided={len(unknown)} functions={len(funcs)} "
          f"solver_s={solver_s:.1f} wall_s={time.time() - t0:.1f} exit={rc}")
    return rc


def replay(path):
    rec = json.load(open(os.path.join(VERIF, path) if not os.path.isabs(path) else path))
    if not rec.get("failing_input"):
        print(f"replay: obligation {rec['obligation']} has no concrete failing input; solver detail:")
        print(json.dumps(rec.get("solver_detail"), indent=1)[:3000])
        return 1
    r = native(rec["native"], ["replay", json.dumps(rec["failing_input"])])
    print(json.dumps(r, indent=1))
    return 1 if (r and r.get("fails")) else 0


if __name__ == "__main__":
    sys.exit(main())
