"""Expression evaluation (mixin)."""
from __future__ import annotations
import ast, z3
from typing import Any, Dict, List, Optional, Tuple
from . import front, smt
from .front import OutsideSubset, ContractError
from .smt import T, parse_T, Ref, Dyn, Flt, Int, Bool, Str
from .values import *
from .state import *
from .interp import *

PY_BUILTINS = {"len", "range", "int", "str", "ord", "chr", "list", "sorted", "max", "min", "sum", "isinstance", "bool",
               "tuple", "dict", "bytearray", "bytes", "float", "print", "enumerate", "zip", "any", "all", "abs", "map",
               "set", "repr", "open", "super", "type", "hasattr", "getattr", "NotImplemented", "NotImplementedError",
               "reversed", "filter", "id", "iter", "next"}
SPEC_FORMS = {"old", "forall", "exists", "implies", "result", "unfold", "iff", "seq_unit", "seq_empty", "seq_extract",
              "dyn_int", "dyn_list", "dyn_str", "dyn_none", "dyn_get", "is_none", "ite", "arr_get", "arr_len", "ghost",
              "count", "raised", "fresh_const", "pw2", "cls_name", "str_contains", "dyn_float", "to_dyn", "let",
              "map_has", "seq_contains", "str_to_int", "int_to_str", "d_int", "d_float", "d_list", "d_chars", "d_is_int",
              "d_is_float", "d_is_list", "d_is_str", "d_is_dict", "d_is_none", "bitlen", "d_mk_list", "d_mk_str", "d_mk_float",
              "d_mk_int", "d_mk_dict_empty", "d_set", "size", "d_absent", "fn_name", "effect_count", "effect_arg", "effect_recv", "effect_index", "world", "effect_result", "empty_options", "py_str", "d_ref", "d_name"}


class EvalMixin:
    def ev(self, st: State, node):
        m = getattr(self, "ev_" + type(node).__name__, None)
        if m is None:
            raise OutsideSubset(f"expression {type(node).__name__}")
        return m(st, node)

    # ----------------------------------------------------------------- atoms
    def ev_Constant(self, st, n):
        v = n.value
        if isinstance(v, (bool, int, str)) or v is None:
            return self.lift(v)
        if isinstance(v, float):
            return Z(T("real"), z3.RealVal(repr(v)))
        if v is Ellipsis:
            return Opaque("...")
        raise OutsideSubset(f"constant {v!r}")

    def env_lookup(self, env, name):
        while env is not None:
            if name in env:
                return True, env[name]
            env = env.get("__parent__")
        return False, None

    def ev_Name(self, st, n):
        name = n.id
        ok, v = self.env_lookup(st.frame.env, name)
        if ok:
            return v
        return self.global_lookup(st, st.frame.module, name)

    def global_lookup(self, st, module, name, depth=0):
        if name in self.specs:
            return self.specs[name]
        if "lemmas:" + name in self.contracts:
            return Opaque("lemma:" + name)
        spec_mod = getattr(st.frame, "spec_module", None)
        for modname in ([module] if module else []) + ([spec_mod] if spec_mod else []):
            try:
                mod = front.load_module(modname)
            except OutsideSubset:
                mod = None
            if mod is None:
                continue
            if name in mod.defs:
                d = mod.defs[name]
                if isinstance(d, ast.FunctionDef):
                    f = Func(d, mod.name, {}, name)
                    v = f
                    for dec in reversed(d.decorator_list):
                        st.frames.append(Frame({}, mod.name, "<module>"))
                        try:
                            v = self.apply_decorator(st, dec, v)
                        finally:
                            st.frames.pop()
                    return v
                if isinstance(d, ast.ClassDef):
                    return ClassVal(name, mod.name, front.class_info(mod.name, name))
                if isinstance(d, ast.Assign):
                    st.frames.append(Frame({}, mod.name, "<module>"))
                    try:
                        return self.ev(st, d.value)
                    except OutsideSubset:
                        return Opaque(f"{mod.name}.{name}")
                    finally:
                        st.frames.pop()
            if name in mod.imports:
                base, attr = mod.imports[name]
                if attr is None:
                    return ModuleVal(base)
                try:
                    front.module_path(base)
                    inrepo = True
                except OutsideSubset:
                    inrepo = False
                if inrepo and depth < 6:
                    try:
                        sub = front.load_module(base)
                        if attr in sub.defs or attr in sub.imports:
                            return self.global_lookup(st, base, attr, depth + 1)
                    except OutsideSubset:
                        pass
                    try:
                        front.load_module(base + "." + attr)
                        return ModuleVal(base + "." + attr)
                    except OutsideSubset:
                        pass
                return self.external(st, base, attr)
        if name in BUILTIN_EXC:
            return ClassVal(name)
        if name in PY_BUILTINS or name in SPEC_FORMS:
            return Builtin(name)
        if name in self.classes:
            m = self.classes[name]
            if "module" in m:
                return ClassVal(name, m["module"], front.class_info(m["module"], m.get("pyname", name)))
        raise OutsideSubset(f"unresolved name {name} in {module}")

    def external(self, st, base, attr):
        key = f"{base}.{attr}"
        if attr in BUILTIN_EXC:
            return ClassVal(attr)
        return Builtin("ext:" + key)

    def ev_Attribute(self, st, n):
        v = self.ev(st, n.value)
        return self.getattr(st, v, n.attr, n.value)

    def getattr(self, st, v, name, loc=None):
        if isinstance(v, DDList):
            if name == "append":
                if st.spec:
                    raise OutsideSubset("mutation in a specification")
                return Builtin("ddlist.append", self_val=v)
            raise OutsideSubset(f"method {name} of a defaultdict entry list")
        if isinstance(v, Union):
            if st.spec:
                return self.spec_map_union(st, v, lambda x: self.getattr(st, x, name, loc))
            v = self.force(st, v, "attr")
        if isinstance(v, HeapRef):
            o = st.obj(v)
            if o.kind == "obj":
                if name in o.fields:
                    return o.fields[name]
                info = getattr(o, "info", None) or self.find_class_info(o.cls)
                if info is not None:
                    r = front.lookup_method(info, name)
                    if r is not None:
                        dc, node = r
                        f = Func(node, dc.module, {}, f"{dc.name}.{name}", self_val=v, cls=dc)
                        if any((isinstance(d, ast.Name) and d.id == "property") for d in node.decorator_list):
                            return self.call(st, f, [], {})
                        return self.decorate_method(st, f, node, dc)
                    # class-level attribute
                    for c in front.mro(info):
                        for s in c.node.body:
                            if isinstance(s, (ast.Assign, ast.AnnAssign)) and s.value is not None and not st.spec \
                                    and any(isinstance(t, ast.Name) and t.id == name for t in (s.targets if isinstance(s, ast.Assign) else [s.target])) \
                                    and (isinstance(s.value, (ast.Dict, ast.List, ast.Set, ast.ListComp, ast.DictComp, ast.SetComp))
                                         or (isinstance(s.value, ast.Call) and isinstance(s.value.func, ast.Name)
                                             and s.value.func.id in ("dict", "list", "set", "defaultdict", "OrderedDict", "deque", "bytearray"))):
                                # a mutable object created once in the class body is shared by every instance and every call: its
                                # contents at entry are NOT those of the class body, and no per-call contract here describes them
                                raise OutsideSubset(f"class-level mutable attribute {c.name}.{name}: state shared between calls and instances")
                            if isinstance(s, ast.Assign) and any(isinstance(t, ast.Name) and t.id == name for t in s.targets):
                                st.frames.append(Frame({}, c.module, "<class>"))
                                try:
                                    return self.ev(st, s.value)
                                finally:
                                    st.frames.pop()
                            if isinstance(s, ast.AnnAssign) and isinstance(s.target, ast.Name) and s.target.id == name and s.value is not None:
                                st.frames.append(Frame({}, c.module, "<class>"))
                                try:
                                    return self.dataclass_default(st, s.value)
                                finally:
                                    st.frames.pop()
                if info is not None and any(front.resolve_class(c.module, b) is None and b not in BUILTIN_EXC and b != "object"
                                            for c in front.mro(info) for b in c.bases):
                    # inherited from a class outside the repository (lark.Transformer, ...): an external method
                    return Opaque(f"{o.cls}().{name}")
                if o.cls in BUILTIN_EXC or (info is not None and self.cls_is_sub(o.cls, "BaseException", o)):
                    if name in ("__init__",):
                        return Builtin("noop")
                if st.spec:
                    raise OutsideSubset(f"no attribute {name} on {o.cls}")
                raise PyRaise(self.make_exc(st, "AttributeError", [zstr(name)]))
            return Builtin(f"{o.kind}.{name}", self_val=(v, loc))
        if isinstance(v, Z):
            k = v.t.kind
            if k == "ref":
                cls = v.t.cls
                ft = self.field_T(cls, name) if cls else self.field_T_any(name)
                if ft is not None:
                    return self.read_field(st, v.e, name, ft)
                if name == "get" and (self.classes.get(cls) or {}).get("dictlike"):
                    return Builtin("refdict.get", self_val=(v, loc))
                if name == "items" and (self.classes.get(cls) or {}).get("dictlike"):
                    return Builtin("refdict.items", self_val=(v, loc))
                return MethodRef(v, name)
            return Builtin(f"{k}.{name}", self_val=(v, loc))
        if isinstance(v, Arr):
            return Builtin(f"arr.{name}", self_val=(v, loc))
        if isinstance(v, ModuleVal):
            try:
                front.module_path(v.name)
                return self.global_lookup(st, v.name, name)
            except OutsideSubset:
                return self.external(st, v.name, name)
        if isinstance(v, ClassVal):
            if v.info is not None:
                r = front.lookup_method(v.info, name)
                if r is not None:
                    dc, node = r
                    return Func(node, dc.module, {}, f"{dc.name}.{name}", cls=dc)
            return Builtin(f"ext:{v.name}.{name}")
        if isinstance(v, PyTuple):
            return Builtin(f"tuple.{name}", self_val=(v, loc))
        if isinstance(v, ExcVal):
            if v.payload is not None:
                return self.getattr(st, v.payload, name, loc)
        if isinstance(v, Opaque):
            return Opaque(f"{v.tag}.{name}")
        if isinstance(v, SuperVal):
            return self.super_getattr(st, v, name)
        if isinstance(v, Func) and name in ("__name__",):
            return zstr(v.qualname.split(".")[-1])
        if isinstance(v, Builtin) and v.name.startswith("ext:"):
            return Builtin(v.name + "." + name)
        if v is NONE:
            if st.spec:
                raise OutsideSubset(f"attribute {name} of None")
            raise PyRaise(self.make_exc(st, "AttributeError", [zstr(name)]))
        raise OutsideSubset(f"attribute {name} of {v!r}")

    def decorate_method(self, st, f, node, dc):
        v = f
        for dec in reversed(node.decorator_list):
            nm = dec.id if isinstance(dec, ast.Name) else (dec.func.id if isinstance(dec, ast.Call) and isinstance(dec.func, ast.Name) else None)
            if nm in IDENTITY_DECORATORS or nm == "property":
                continue
            st.frames.append(Frame({}, dc.module, "<class>"))
            try:
                raw = Func(node, dc.module, {}, f.qualname, cls=dc)
                dv = self.ev(st, dec)
                w = self.call(st, dv, [raw], {})
            finally:
                st.frames.pop()
            if isinstance(w, Func):
                w = w.bind(f.self_val)
                w.decorated = f.qualname
            v = w
        return v

    def read_field(self, st, r, name, ft: T):
        if ft.kind == "opt":
            isn = smt.ufunc(f"fld.{name}.isnone", Ref, Bool)(r)
            inner = self.read_field(st, r, name, ft.args[0])
            return Union([(isn, NONE), (z3.Not(isn), inner)])
        if ft.kind in ("any", "func"):
            return Opaque(f"fld.{name}({r})")
        val = self.field_fn(name, ft)(r)
        # typing invariant of the schema classes (pyserde strict type checking in their constructors): list fields hold
        # objects of the declared element class
        if ft.kind == "seq" and ft.args[0].kind == "ref" and ft.args[0].cls and not any(b.eq(x) for b in st.bound for x in [r]):
            key = ("typed", val.sexpr())
            done = st.ghost.setdefault("__unfolded", set())
            subs = self.concrete_subclasses(ft.args[0].cls)
            if key not in done and subs and not st.bound:
                done.add(key)
                i = z3.Int("ti!")
                st.axioms.append(z3.ForAll([i], z3.Implies(z3.And(0 <= i, i < z3.Length(val)),
                                                          z3.Or([smt.cls_of(smt.seq_nth(val, i)) == z3.StringVal(c) for c in subs]))))
        return Z(ft, val)

    # ----------------------------------------------------------------- containers
    def ev_List(self, st, n):
        items = []
        for e in n.elts:
            if isinstance(e, ast.Starred):
                its = self.concrete_items(st, self.ev(st, e.value))
                if its is None:
                    raise OutsideSubset("starred symbolic")
                items += its
            else:
                items.append(self.ev(st, e))
        return st.alloc(HeapObj("list", "list", items=items))

    def ev_Tuple(self, st, n):
        return PyTuple([self.ev(st, e) for e in n.elts])

    def ev_Dict(self, st, n):
        d = {}
        for k, v in zip(n.keys, n.values):
            if k is None:
                src = self.force(st, self.ev(st, v))
                if isinstance(src, HeapRef) and st.obj(src).kind == "dict":
                    d.update(st.obj(src).items)
                    continue
                raise OutsideSubset("** of symbolic dict")
            kk = self.dict_key(st, self.ev(st, k))
            if kk is None:
                raise OutsideSubset("symbolic dict key in literal")
            d[kk] = self.ev(st, v)
        return st.alloc(HeapObj("dict", "dict", items=d))

    def ev_Set(self, st, n):
        raise OutsideSubset("set literal")

    def ev_Lambda(self, st, n):
        return Func(n, st.frame.module, st.frame.env, st.frame.qualname + ".<lambda>")

    def ev_JoinedStr(self, st, n):
        parts = []
        for p in n.values:
            if isinstance(p, ast.Constant):
                parts.append(z3.StringVal(p.value))
            else:
                v = self.ev(st, p.value)
                parts.append(self.to_str_term(st, v))
        if not parts:
            return zstr("")
        return zstr(z3.Concat(*parts) if len(parts) > 1 else parts[0])

    def to_str_term(self, st, v):
        if isinstance(v, Z):
            if v.t.kind == "str":
                return v.e
            if v.t.kind == "int":
                c = const_int(v)
                if c is not None:
                    return z3.StringVal(str(c))
                return z3.If(v.e >= 0, z3.IntToStr(v.e), smt.str_of_int(v.e))
        if isinstance(v, Union) and st.spec:
            out = None
            for c, x in reversed(v.alts):
                e = self.to_str_term(st, x)
                out = e if out is None else z3.If(c, e, out)
            return out
        if isinstance(v, Z) and v.t.kind == "dyn":
            return self.py_str(st, v.e)
        if isinstance(v, Opaque):
            return z3.Const("strof!" + v.tag, Str)     # str() of an unknown value: a fixed unknown string per value
        st.notes.append("str() of a non-string value treated as an unspecified string")
        return st.fresh("strof", Str)

    def py_str(self, st, d):
        """str() of a dynamic value: an uninterpreted function that is the identity on strings and the decimal numeral on
        integers (floats, lists, ... : unspecified but a function of the value)"""
        fn = smt.ufunc("py.str", Dyn, Str)
        app = fn(d)
        n = smt.dyn_acc("DInt", 0, d)
        ax = z3.And(z3.Implies(smt.dyn_is("DName", d), app == smt.dyn_acc("DName", 0, d)),
                    z3.Implies(smt.dyn_is("DInt", d), app == z3.If(n >= 0, z3.IntToStr(n), smt.str_of_int(n))))
        bs = [b for b in st.bound if self._mentions(ax, b)]
        st.axioms.append(z3.ForAll(bs, ax, patterns=[app]) if bs else ax)
        return app

    def ev_Starred(self, st, n):
        raise OutsideSubset("starred outside call/list")

    def ev_ListComp(self, st, n):
        return self.comprehension(st, n, "list")

    def ev_GeneratorExp(self, st, n):
        return self.comprehension(st, n, "list")

    def ev_DictComp(self, st, n):
        return self.comprehension(st, n, "dict")

    def comprehension(self, st, n, kind):
        if len(n.generators) != 1:
            # nested generators over concrete data only
            return self.comp_nested(st, n, kind)
        g = n.generators[0]
        it = self.force(st, self.ev(st, g.iter)) if not st.spec else self.ev(st, g.iter)
        if isinstance(it, DDList):
            it = self.dd_seq(st, it)
        if isinstance(it, HeapRef) and st.obj(it).kind == "obj" and st.obj(it).cls == "defaultdict":
            it = st.obj(it).fields["keys"]        # iterating a dict yields its keys in insertion order
        items = self.concrete_items(st, it)
        env = {"__parent__": st.frame.env}
        fr = Frame(env, st.frame.module, st.frame.qualname)
        fr.contract = getattr(st.frame, "contract", None)
        fr.spec_module = getattr(st.frame, "spec_module", None)
        if items is not None:
            out_l, out_d = [], {}
            st.frames.append(fr)
            try:
                for x in items:
                    self.assign(st, g.target, x)
                    keep = True
                    for c in g.ifs:
                        cv = self.truthy(st, self.ev(st, c))
                        if st.spec:
                            b = const_bool(zbool(cv))
                            if b is None:
                                raise OutsideSubset("symbolic filter in a spec-mode comprehension over concrete data")
                            keep = keep and b
                        elif not self.branch(st, cv, "compif"):
                            keep = False
                        if not keep:
                            break
                    if not keep:
                        continue
                    if kind == "dict":
                        k = self.dict_key(st, self.ev(st, n.key))
                        if k is None:
                            raise OutsideSubset("symbolic key in dict comprehension")
                        out_d[k] = self.ev(st, n.value)
                    else:
                        out_l.append(self.ev(st, n.elt))
            finally:
                st.frames.pop()
            if kind == "dict":
                return st.alloc(HeapObj("dict", "dict", items=out_d))
            return st.alloc(HeapObj("list", "list", items=out_l))
        if kind == "dict":
            raise OutsideSubset("dict comprehension over symbolic data")
        if not (isinstance(it, Z) and it.t.kind == "seq"):
            raise OutsideSubset(f"comprehension over {it!r}")
        return self.seq_map(st, n, g, it, fr)

    def comp_nested(self, st, n, kind):
        """[elt for xs in A for x in B(xs)] == flatten([[elt for x in B(xs)] for xs in A]); the flattening of a symbolic
        list of lists is the recursive concatenation flat_pairs / flat_refs of spec/builtins.py"""
        if kind != "list" or len(n.generators) != 2:
            raise OutsideSubset("nested comprehension")
        inner = ast.ListComp(elt=n.elt, generators=[n.generators[1]])
        outer = ast.ListComp(elt=inner, generators=[n.generators[0]])
        ast.copy_location(inner, n)
        ast.copy_location(outer, n)
        xss = self.comprehension(st, outer, "list")
        items = self.concrete_items(st, xss)
        if items is not None:
            out = []
            for xs in items:
                sub = self.concrete_items(st, self.force(st, xs) if not st.spec else xs)
                if sub is None:
                    raise OutsideSubset("flattening a concrete list with a symbolic member")
                out += list(sub)
            return st.alloc(HeapObj("list", "list", items=out))
        return self.seq_flatten(st, xss)

    def seq_flatten(self, st, xss):
        if not (isinstance(xss, Z) and xss.t.kind == "seq" and xss.t.args[0].kind == "seq"):
            raise OutsideSubset(f"flattening {xss!r}")
        et = xss.t.args[0].args[0]
        if et.kind == "tuple" and len(et.args) == 2 and all(a.kind == "ref" for a in et.args):
            nm = "flat_pairs"
        elif et.kind == "ref":
            nm = "flat_refs"
        else:
            raise OutsideSubset(f"flattening a list of lists of {et}")
        if nm not in self.specs:
            raise OutsideSubset("spec/builtins.py:" + nm + " missing")
        r = self.call_spec(st, self.specs[nm], [xss, zint(z3.Length(xss.e))], {})
        return Z(T("seq", (et,)), r.e)

    def seq_map_func(self, st, f, it: Z):
        """map(f, s) over a symbolic sequence (same canonical term as the comprehension [f(x) for x in s])"""
        et = it.t.args[0]
        xb = z3.Const(f"cx!{et.kind}!{len(st.bound)}", et.z3sort() if et.kind != "char" else Int)
        st.ghost.setdefault("__comp_code", []).append(st.spec == 0)
        st.spec += 1
        st.bound.append(xb)
        try:
            ev = self.call(st, f, [Z(et, xb)], {})
        finally:
            st.bound.pop()
            st.spec -= 1
            st.ghost["__comp_code"].pop()
        return self.seq_map_core(st, it, xb, ev, [])

    def seq_map(self, st, n, g, it: Z, fr):
        """[elt for x in s (if c)] over a symbolic sequence: a canonical map term with pointwise axioms."""
        et = it.t.args[0]
        xb = z3.Const(f"cx!{et.kind}!{len(st.bound)}", et.z3sort() if et.kind != "char" else Int)
        st.frames.append(fr)
        st.ghost.setdefault("__comp_code", []).append(st.spec == 0)
        st.spec += 1
        st.bound.append(xb)
        try:
            self.assign(st, g.target, Z(et, xb))
            conds = [self.truthy(st, self.ev(st, c)) for c in g.ifs]
            ev = self.ev(st, n.elt)
        finally:
            st.bound.pop()
            st.spec -= 1
            st.frames.pop()
            st.ghost["__comp_code"].pop()
        return self.seq_map_core(st, it, xb, ev, conds)

    def seq_map_core(self, st, it: Z, xb, ev, conds):
        if isinstance(ev, PyTuple) and all(isinstance(x, Z) and x.t.is_smt() for x in ev.items):
            tt = T("tuple", tuple(x.t for x in ev.items))
            ev = self.to_z(st, ev, tt)
        if isinstance(ev, Union) or ev is NONE or (isinstance(ev, HeapRef) and st.obj(ev).kind in ("dict", "list")):
            ev = Z(T("dyn"), self.to_dyn(st, ev))
        if isinstance(ev, PyTuple):
            raise OutsideSubset("tuple-valued comprehension over symbolic data")
        if not isinstance(ev, Z) or not (ev.t.is_smt() or ev.t.kind == "char"):
            raise OutsideSubset(f"comprehension element {ev!r} is not an SMT value")
        if not conds and ev.e.eq(xb) and ev.e.sort() == it.e.sort().basis():
            return Z(T("seq", (ev.t,)), it.e)      # [x for x in s] over an immutable sequence value is s
        rs = z3.SeqSort(ev.e.sort())
        # the mapped sequence is an uninterpreted function of the source sequence and of the other free constants of the
        # element expression; the same comprehension text therefore denotes the same term in code and in contracts
        frees = self.free_consts(ev.e, xb) + [c for cnd in conds for c in self.free_consts(cnd, xb)]
        seen_ids, fr2 = set(), []
        for c in frees:
            if c.get_id() not in seen_ids:
                seen_ids.add(c.get_id())
                fr2.append(c)
        frees = sorted(fr2, key=lambda c: str(c))
        import hashlib
        ren = [(c, z3.Const(f"fc!{i}", c.sort())) for i, c in enumerate(frees)] + [(xb, z3.Const("cx!", xb.sort()))]
        canon = z3.substitute(ev.e, *ren)
        ccanon = [z3.substitute(cnd, *ren) for cnd in conds]
        h = hashlib.sha1(repr((canon.sexpr(), tuple(c.sexpr() for c in ccanon), str(it.e.sort()))).encode()).hexdigest()[:10]
        fn = smt.ufunc(f"map.{h}", it.e.sort(), *[c.sort() for c in frees], rs)
        r = fn(it.e, *frees)
        rt = T("seq", (ev.t,))
        res = Z(rt, r)
        key = r.sexpr()
        cache = st.ghost.setdefault("__maps", set())
        if key in cache:
            return res
        cache.add(key)

        def close(ax):
            bs = [b for b in st.bound if self._mentions(ax, b)]
            return z3.ForAll(bs, ax) if bs else ax

        # preconditions of contract-cut calls in the element expression: an obligation for every element of the source
        ppre = st.ghost.get("__pending_pre") or []
        st.ghost["__pending_pre"] = [p for p in ppre if not p[0].eq(xb)]
        for b, pre, short in [p for p in ppre if p[0].eq(xb)]:
            i = z3.Const("mi!", Int)
            guard = z3.And([0 <= i, i < z3.Length(it.e)] + [z3.substitute(cnd, (xb, smt.seq_nth(it.e, i))) for cnd in conds])
            goal = z3.ForAll([i], z3.Implies(guard, z3.substitute(pre, (xb, smt.seq_nth(it.e, i)))))
            if st.bound:
                goal = z3.ForAll(list(st.bound), goal)
            self.oblige(st, f"{self.current_target}#pre-of-call-in-comprehension[{short}]", goal, "pre")
        # postconditions of contract-cut calls in the element expression: one instance per element of the source
        pend = st.ghost.get("__pending_binder") or []
        mine = [g for b, g in pend if b.eq(xb)]
        st.ghost["__pending_binder"] = [(b, g) for b, g in pend if not b.eq(xb)]
        for g in mine:
            i = z3.Const("mi!", Int)
            st.axioms.append(close(z3.ForAll([i], z3.Implies(z3.And(0 <= i, i < z3.Length(it.e)),
                                                               z3.substitute(g, (xb, smt.seq_nth(it.e, i)))))))
        if not conds:
            i = z3.Const("mi!", Int)
            body = z3.substitute(ev.e, (xb, smt.seq_nth(it.e, i)))
            st.axioms.append(close(z3.Length(r) == z3.Length(it.e)))
            st.axioms.append(close(z3.ForAll([i], z3.Implies(z3.And(0 <= i, i < z3.Length(it.e)), smt.seq_nth(r, i) == body))))
        else:
            # filtered map: only a structural fact (length bound); code and spec use the same term
            st.axioms.append(close(z3.Length(r) <= z3.Length(it.e)))
        return res

    def free_consts(self, e, exclude):
        out = {}

        def walk(x):
            if z3.is_const(x) and x.decl().kind() == z3.Z3_OP_UNINTERPRETED:
                if not x.eq(exclude):
                    out[x.get_id()] = x
                return
            for c in x.children():
                walk(c)

        walk(e)
        return list(out.values())

    # ----------------------------------------------------------------- subscripts
    def ev_Subscript(self, st, n):
        c = self.ev(st, n.value)
        if isinstance(n.slice, ast.Slice):
            return self.slice_of(st, c, n.slice)
        k = self.ev(st, n.slice)
        return self.index(st, c, k)

    def index(self, st, c, k):
        if isinstance(c, Opaque):
            return Opaque(c.tag + "[]")
        if isinstance(c, DDView):
            f = const_str(k) if isinstance(k, Z) else None
            if f is None or f not in st.obj(c.ref).fields or f == "keys":
                raise OutsideSubset("record field of a defaultdict entry that is not a literal")
            return DDList(c.ref, c.key, f)
        if isinstance(c, DDList):
            return self.index(st, self.dd_seq(st, c), k)
        if isinstance(c, HeapRef) and st.obj(c).kind == "obj" and st.obj(c).cls == "defaultdict":
            o = st.obj(c)
            key = self.to_z(st, k, T("str"))
            if not st.spec:
                ks = o.fields["keys"].e      # first access inserts the key (insertion order is iteration order)
                o.fields["keys"] = Z(o.fields["keys"].t, z3.If(z3.Contains(ks, z3.Unit(key.e)), ks, z3.Concat(ks, z3.Unit(key.e))))
            return DDView(c, key)
        if isinstance(c, Z) and c.t.kind == "smap":
            return Z(T("seq", (T("dyn"),)), z3.Select(c.e, self.to_z(st, k, T("str")).e))
        if isinstance(c, Union):
            if st.spec:
                return self.spec_map_union(st, c, lambda x: self.index(st, x, k))
            c = self.force(st, c, "index")
        if isinstance(c, PyTuple):
            i = const_int(k)
            if i is None:
                raise OutsideSubset("symbolic tuple index")
            if not (-len(c.items) <= i < len(c.items)):
                raise PyRaise(self.make_exc(st, "IndexError", []))
            return c.items[i]
        if isinstance(c, HeapRef):
            o = st.obj(c)
            if o.kind == "list":
                i = const_int(k)
                if i is not None:
                    if not (-len(o.items) <= i < len(o.items)):
                        if st.spec:
                            raise OutsideSubset("index out of range in spec")
                        raise PyRaise(self.make_exc(st, "IndexError", []))
                    return o.items[i]
                ie = self.as_int(st, k)
                if not o.items:
                    raise PyRaise(self.make_exc(st, "IndexError", []))
                if not st.spec and not self.branch(st, z3.And(0 <= ie, ie < len(o.items)), "idx"):
                    raise PyRaise(self.make_exc(st, "IndexError", []))
                out = o.items[-1]
                for j in range(len(o.items) - 2, -1, -1):
                    out = self.merge(st, ie == j, o.items[j], out)
                return out
            if o.kind == "dict":
                key = self.dict_key(st, k)
                if key is not None:
                    if key in o.items:
                        return o.items[key]
                    if st.spec:
                        raise OutsideSubset(f"missing key {key!r} in spec")
                    raise PyRaise(self.make_exc(st, "KeyError", [k]))
                if isinstance(k, Z) and k.t.kind == "str":
                    alts = [(k.e == z3.StringVal(kk), kk) for kk in o.items if isinstance(kk, str)]
                    alts.append((z3.And([k.e != z3.StringVal(kk) for kk in o.items if isinstance(kk, str)] or [z3.BoolVal(True)]), None))
                    if st.spec:
                        raise OutsideSubset("symbolic key lookup on concrete dict in spec")
                    which = self.pick(st, alts, "dictkey")
                    if which is None:
                        raise PyRaise(self.make_exc(st, "KeyError", [k]))
                    return o.items[which]
                raise OutsideSubset("symbolic dict key")
            if o.kind == "obj":
                # objects with __getitem__ are outside the subset
                raise OutsideSubset(f"subscript on object {o.cls}")
        if isinstance(c, Arr):
            i = self.as_int(st, k)
            if not st.spec and not self.branch(st, z3.And(-c.n <= i, i < c.n), "idx"):
                raise PyRaise(self.make_exc(st, "IndexError", []))
            if not st.spec and not self.branch(st, i >= 0, "idxneg"):
                i = i + c.n
            return zint(c.a[i])
        if isinstance(c, Z):
            kind = c.t.kind
            if kind == "seq":
                i = self.as_int(st, k)
                ln = z3.Length(c.e)
                if not st.spec:
                    if not self.branch(st, z3.And(-ln <= i, i < ln), "idx"):
                        raise PyRaise(self.make_exc(st, "IndexError", []))
                    if not self.branch(st, i >= 0, "idxneg"):
                        i = i + ln
                et = c.t.args[0]
                return Z(et, smt.seq_nth(c.e, i))
            if kind == "dyn":
                if isinstance(k, Z) and k.t.kind == "str":
                    isd = smt.dyn_is("DDict", c.e)
                    if not st.spec and not self.branch(st, isd, "isdict"):
                        raise PyRaise(self.make_exc(st, "TypeError", []))
                    val = z3.Select(smt.dyn_acc("DDict", 0, c.e), k.e)
                    if not st.spec and not self.branch(st, val != smt.dyn_ctor("DAbsent"), "haskey"):
                        raise PyRaise(self.make_exc(st, "KeyError", [k]))
                    return Z(T("dyn"), val)
                i = self.as_int(st, k)
                isl = smt.dyn_is("DList", c.e)
                if not st.spec and not self.branch(st, isl, "islist"):
                    raise OutsideSubset("index into a non-list dynamic value")
                s = smt.dyn_acc("DList", 0, c.e)
                if not st.spec and not self.branch(st, z3.And(0 <= i, i < z3.Length(s)), "idx"):
                    raise PyRaise(self.make_exc(st, "IndexError", []))
                return Z(T("dyn"), smt.seq_nth(s, i))
            if kind == "tuple":
                ci = const_int(k) if isinstance(k, Z) else None
                if ci is None or not (-len(c.t.args) <= ci < len(c.t.args)):
                    raise OutsideSubset("tuple index that is not a literal in range")
                srt, mk, accs = smt.tuple_sort(tuple(a.z3sort() for a in c.t.args))
                return Z(c.t.args[ci], accs[ci](c.e))
            if kind == "str":
                i = self.as_int(st, k)
                ln = z3.Length(c.e)
                if not st.spec:
                    if not self.branch(st, z3.And(-ln <= i, i < ln), "idx"):
                        raise PyRaise(self.make_exc(st, "IndexError", []))
                    i = z3.If(i < 0, i + ln, i)
                return zstr(z3.SubString(c.e, i, 1))
        raise OutsideSubset(f"index into {c!r}")

    def slice_of(self, st, c, sl):
        if sl.step is not None:
            raise OutsideSubset("slice step")
        c = self.force(st, c) if not st.spec else c
        lo = self.ev(st, sl.lower) if sl.lower is not None else None
        hi = self.ev(st, sl.upper) if sl.upper is not None else None
        if isinstance(c, HeapRef) and st.obj(c).kind == "list":
            items = st.obj(c).items
            l = const_int(lo) if lo is not None else None
            h = const_int(hi) if hi is not None else None
            if (lo is not None and l is None) or (hi is not None and h is None):
                raise OutsideSubset("symbolic slice of concrete list")
            return st.alloc(HeapObj("list", "list", items=items[l:h]))
        if isinstance(c, PyTuple):
            l = const_int(lo) if lo is not None else None
            h = const_int(hi) if hi is not None else None
            return PyTuple(c.items[l:h])
        if isinstance(c, Z) and c.t.kind in ("seq", "str"):
            ln = z3.Length(c.e)

            def norm(v, dflt):
                if v is None:
                    return dflt
                e = self.as_int(st, v)
                e = z3.If(e < 0, z3.If(e + ln < 0, 0, e + ln), z3.If(e > ln, ln, e))
                return z3.simplify(e)

            l, h = norm(lo, z3.IntVal(0)), norm(hi, ln)
            return Z(c.t, z3.Extract(c.e, l, z3.If(h - l > 0, h - l, 0)))
        raise OutsideSubset(f"slice of {c!r}")

    # ----------------------------------------------------------------- operators
    def ev_UnaryOp(self, st, n):
        v = self.ev(st, n.operand)
        if isinstance(n.op, ast.Not):
            return zbool(z3.Not(self.truthy(st, v)))
        if isinstance(n.op, ast.USub):
            if isinstance(v, Z) and v.t.kind == "real":
                return Z(v.t, -v.e)
            return zint(-self.as_int(st, v))
        if isinstance(n.op, ast.UAdd):
            return zint(self.as_int(st, v))
        raise OutsideSubset("unary op")

    def ev_BoolOp(self, st, n):
        is_and = isinstance(n.op, ast.And)
        if st.spec:
            vals = []
            for vn in n.values:
                v = self.ev(st, vn)
                vals.append(v)
                # python's short circuit for a decided operand: the rest is not evaluated (it may be undefined there)
                if isinstance(v, Z) and v.t.kind == "bool" and ((is_and and is_false(v.e)) or (not is_and and is_true(v.e))):
                    return v
            if all(isinstance(v, Z) and v.t.kind == "bool" for v in vals):
                es = [v.e for v in vals]
                return zbool(z3.And(es) if is_and else z3.Or(es))
            out = vals[-1]
            for v in reversed(vals[:-1]):
                t = self.truthy(st, v)
                out = self.merge(st, t, out, v) if is_and else self.merge(st, t, v, out)
            return out
        v = None
        for i, e in enumerate(n.values):
            v = self.ev(st, e)
            if i == len(n.values) - 1:
                return v
            t = self.truthy(st, v)
            b = self.branch(st, t, "and" if is_and else "or")
            if is_and and not b:
                return v
            if not is_and and b:
                return v
        return v

    def ev_IfExp(self, st, n):
        c = self.truthy(st, self.ev(st, n.test))
        if st.spec:
            if is_true(c):
                return self.ev(st, n.body)
            if is_false(c):
                return self.ev(st, n.orelse)
            return self.merge(st, c, self.ev(st, n.body), self.ev(st, n.orelse))
        if self.branch(st, c, "ifexp"):
            return self.ev(st, n.body)
        return self.ev(st, n.orelse)

    def ev_Compare(self, st, n):
        left = self.ev(st, n.left)
        conds = []
        for op, rn in zip(n.ops, n.comparators):
            right = self.ev(st, rn)
            conds.append(self.compare(st, op, left, right))
            left = right
        return zbool(z3.And(conds) if len(conds) > 1 else conds[0])

    def num(self, st, v):
        """-> ('int'|'real', term)"""
        if isinstance(v, Z) and v.t.kind == "real":
            return "real", v.e
        return "int", self.as_int(st, v)

    def compare(self, st, op, a, b):
        if isinstance(op, ast.Eq):
            return self.eq(st, a, b)
        if isinstance(op, ast.NotEq):
            return z3.Not(self.eq(st, a, b))
        if isinstance(op, (ast.Is, ast.IsNot)):
            r = self.is_(st, a, b)
            return r if isinstance(op, ast.Is) else z3.Not(r)
        if isinstance(op, (ast.In, ast.NotIn)):
            r = self.contains(st, b, a)
            return r if isinstance(op, ast.In) else z3.Not(r)
        if isinstance(a, Z) and isinstance(b, Z) and a.t.kind == "str" and b.t.kind == "str":
            raise OutsideSubset("string ordering")
        ka, ea = self.num(st, a)
        kb, eb = self.num(st, b)
        if ka != kb:
            ea = z3.ToReal(ea) if ka == "int" else ea
            eb = z3.ToReal(eb) if kb == "int" else eb
        if isinstance(op, ast.Lt):
            return ea < eb
        if isinstance(op, ast.LtE):
            return ea <= eb
        if isinstance(op, ast.Gt):
            return ea > eb
        if isinstance(op, ast.GtE):
            return ea >= eb
        raise OutsideSubset("comparison operator")

    def is_(self, st, a, b):
        if isinstance(a, Union):
            return z3.Or([z3.And(c, self.is_(st, x, b)) for c, x in a.alts])
        if isinstance(b, Union):
            return z3.Or([z3.And(c, self.is_(st, a, x)) for c, x in b.alts])
        if a is NONE or b is NONE:
            o = b if a is NONE else a
            if o is NONE:
                return z3.BoolVal(True)
            if isinstance(o, Z) and o.t.kind == "dyn":
                return smt.dyn_is("DNone", o.e)
            return z3.BoolVal(False)
        if isinstance(a, HeapRef) and isinstance(b, HeapRef):
            return z3.BoolVal(a.id == b.id)
        if isinstance(a, Z) and isinstance(b, Z) and a.t.kind == "bool" and b.t.kind == "bool":
            return a.e == b.e
        raise OutsideSubset(f"`is` on {a!r}, {b!r}")

    def contains(self, st, c, x):
        if isinstance(c, DDList):
            return z3.Contains(self.dd_seq(st, c).e, z3.Unit(self.to_dyn(st, x)))
        if isinstance(c, Union):
            return z3.Or([z3.And(cc, self.contains(st, y, x)) for cc, y in c.alts])
        items = None
        if isinstance(c, HeapRef) and st.obj(c).kind == "dict":
            items = [self.lift_key(k) for k in st.obj(c).items]
        elif isinstance(c, (PyTuple, HeapRef)):
            items = self.concrete_items(st, c)
        if items is not None:
            return z3.Or([self.eq(st, x, y) for y in items] or [z3.BoolVal(False)])
        if isinstance(c, Z):
            if c.t.kind == "seq":
                xe = self.to_z(st, x, c.t.args[0]).e
                return z3.Contains(c.e, z3.Unit(xe))
            if c.t.kind == "str":
                return z3.Contains(c.e, self.to_z(st, x, T("str")).e)
            if c.t.kind == "dyn":
                k = self.to_z(st, x, T("str")).e
                return z3.Select(smt.dyn_acc("DDict", 0, c.e), k) != smt.dyn_ctor("DAbsent")
        raise OutsideSubset(f"`in` on {c!r}")

    def ev_BinOp(self, st, n):
        a = self.ev(st, n.left)
        b = self.ev(st, n.right)
        return self.binop(st, n.op, a, b)

    def binop(self, st, op, a, b):
        if isinstance(a, Opaque) or isinstance(b, Opaque):
            # e.g. pathlib.Path / str : an unknown value that is a function of the operands
            ta = a.tag if isinstance(a, Opaque) else (str(z3.simplify(a.e)) if isinstance(a, Z) else repr(a))
            tb = b.tag if isinstance(b, Opaque) else (str(z3.simplify(b.e)) if isinstance(b, Z) else repr(b))
            return Opaque(f"({ta} {type(op).__name__} {tb})")
        if isinstance(a, Union) or isinstance(b, Union):
            if st.spec:
                if isinstance(a, Union):
                    vals = [(c, self.binop(st, op, x, b)) for c, x in a.alts]
                else:
                    vals = [(c, self.binop(st, op, a, x)) for c, x in b.alts]
                out = vals[-1][1]
                for c, x in reversed(vals[:-1]):
                    out = self.merge(st, c, x, out)
                return out
            a, b = self.force(st, a), self.force(st, b)
        if isinstance(op, ast.Add):
            if isinstance(a, Z) and isinstance(b, Z):
                if a.t.kind == "str" and b.t.kind == "str":
                    return zstr(z3.Concat(a.e, b.e))
                if a.t.kind == "seq" and b.t.kind == "seq":
                    return Z(a.t, z3.Concat(a.e, b.e))
            if isinstance(a, Z) and a.t.kind == "str" and not (isinstance(b, Z) and b.t.kind == "str"):
                if st.spec:
                    raise OutsideSubset("str + non-str in spec")
                raise PyRaise(self.make_exc(st, "TypeError", []))
            if isinstance(a, (HeapRef, PyTuple)) or isinstance(b, (HeapRef, PyTuple)) or (isinstance(a, Z) and a.t.kind == "seq") or (isinstance(b, Z) and b.t.kind == "seq"):
                return self.seq_concat(st, a, b)
            if isinstance(a, Arr) or isinstance(b, Arr):
                return self.arr_concat(st, a, b)
        ka, ea = self.num(st, a)
        kb, eb = self.num(st, b)
        if ka == "real" or kb == "real":
            ea = z3.ToReal(ea) if ka == "int" else ea
            eb = z3.ToReal(eb) if kb == "int" else eb
            if isinstance(op, ast.Add):
                return Z(T("real"), ea + eb)
            if isinstance(op, ast.Sub):
                return Z(T("real"), ea - eb)
            if isinstance(op, ast.Mult):
                return Z(T("real"), ea * eb)
            if isinstance(op, ast.Div):
                return Z(T("real"), ea / eb)
            raise OutsideSubset("real arithmetic operator")
        if isinstance(op, ast.Add):
            return zint(ea + eb)
        if isinstance(op, ast.Sub):
            return zint(ea - eb)
        if isinstance(op, ast.Mult):
            return zint(ea * eb)
        if isinstance(op, ast.Div):
            st.notes.append("`/` on ints modelled as exact rational division")
            if not st.spec and not self.branch(st, eb != 0, "div0"):
                raise PyRaise(self.make_exc(st, "ZeroDivisionError", []))
            return Z(T("real"), z3.ToReal(ea) / z3.ToReal(eb))
        if isinstance(op, (ast.FloorDiv, ast.Mod)):
            if not st.spec:
                if not self.branch(st, eb != 0, "div0"):
                    raise PyRaise(self.make_exc(st, "ZeroDivisionError", []))
                if not self.branch(st, eb > 0, "divpos"):
                    raise OutsideSubset("floor division by a negative number")
            return zint(ea / eb if isinstance(op, ast.FloorDiv) else ea % eb)
        if isinstance(op, ast.Pow):
            ca, cb = const_int(zint(ea)), const_int(zint(eb))
            if ca is not None and cb is not None and cb >= 0:
                return zint(ca ** cb)
            if ca == 2:
                if not st.spec and not self.branch(st, eb >= 0, "pow"):
                    raise OutsideSubset("negative exponent")
                return zint(smt.pow2_term(eb))
            raise OutsideSubset("general power")
        if isinstance(op, ast.LShift):
            if not st.spec and not self.branch(st, eb >= 0, "shl"):
                raise PyRaise(self.make_exc(st, "ValueError", []))
            p = smt.pow2_term(eb)
            return zint(self.times(ea, p))
        if isinstance(op, ast.RShift):
            if not st.spec and not self.branch(st, eb >= 0, "shr"):
                raise PyRaise(self.make_exc(st, "ValueError", []))
            return zint(ea / smt.pow2_term(eb))
        if isinstance(op, ast.BitAnd):
            cb = const_int(zint(eb))
            ca = const_int(zint(ea))
            if cb is not None and cb >= 0 and (cb & (cb + 1)) == 0:
                return zint(ea % (cb + 1))
            if ca is not None and ca >= 0 and (ca & (ca + 1)) == 0:
                return zint(eb % (ca + 1))
            return zint(smt.band(ea, eb))
        if isinstance(op, ast.BitOr):
            return zint(self.bit_or(st, ea, eb))
        raise OutsideSubset(f"operator {type(op).__name__}")

    def times(self, a, p):
        """a << k  ==  a * 2^k; remembers that the result is a multiple of p (used by bit_or)."""
        a = z3.simplify(a)
        if z3.is_int_value(a) or z3.is_int_value(z3.simplify(p)):
            r = a * p
        else:
            # products bit * 2^k: keep linear by case analysis when the solver knows 0 <= a <= 1
            r = z3.If(a == 0, 0, z3.If(a == 1, p, a * p))
        if not hasattr(self, "shift_table"):
            self.shift_table = {}
        self.shift_table[r.get_id()] = (a, p, r)
        return r

    def bit_or(self, st, a, b):
        """x | y as an uninterpreted function plus ground instances of the prelude fact
        `0 <= x < 2^k and y == m * 2^k with m >= 0  ==>  x | y == x + y` (disjoint bits), instantiated for operands
        that were syntactically built as a shift (m << k)."""
        r = smt.bor(a, b)
        tab = getattr(self, "shift_table", {})
        for x, y in ((a, b), (b, a)):
            ent = tab.get(y.get_id())
            if ent is not None:
                m, p, _ = ent
                st.axioms.append(z3.Implies(z3.And(0 <= x, x < p, m >= 0), r == x + y))
        st.axioms.append(z3.Implies(a == 0, r == b))
        st.axioms.append(z3.Implies(b == 0, r == a))
        return r

    def seq_concat(self, st, a, b):
        ia, ib = self.concrete_items(st, a), self.concrete_items(st, b)
        if ia is not None and ib is not None:
            if isinstance(a, PyTuple) and isinstance(b, PyTuple):
                return PyTuple(ia + ib)
            return st.alloc(HeapObj("list", "list", items=ia + ib))
        za = a if isinstance(a, Z) else None
        zb = b if isinstance(b, Z) else None
        t = (za or zb).t
        za = za or self.to_z(st, a, t)
        zb = zb or self.to_z(st, b, t)
        return Z(t, z3.Concat(za.e, zb.e))

    def arr_concat(self, st, a, b):
        if isinstance(a, HeapRef) and st.obj(a).kind == "list" and not st.obj(a).items and isinstance(b, Arr):
            return b
        if isinstance(a, Arr) and (is_true(a.n == 0) or not self.feasible(st, a.n != 0)):
            if isinstance(b, Arr):
                return b
            return self.seq_to_arr(st, b)
        raise OutsideSubset("concatenation onto a non-empty byte array")

    def seq_to_arr(self, st, b):
        if isinstance(b, Z) and b.t.kind == "seq":
            a = st.fresh("arr", z3.ArraySort(Int, Int))
            j = z3.Const("aj!", Int)
            st.axioms.append(z3.ForAll([j], z3.Implies(z3.And(0 <= j, j < z3.Length(b.e)), a[j] == smt.seq_nth(b.e, j)), patterns=[a[j]]))
            return Arr(a, z3.Length(b.e))
        items = self.concrete_items(st, b)
        if items is not None:
            a = z3.K(Int, z3.IntVal(0))
            for i, x in enumerate(items):
                a = z3.Store(a, i, self.as_int(st, x))
            return Arr(a, z3.IntVal(len(items)))
        raise OutsideSubset("to byte array")


class SuperVal:
    def __init__(self, self_val, cls):
        self.self_val, self.cls = self_val, cls
