"""Statement / expression evaluation (mixin over Interp)."""
from __future__ import annotations
import ast, z3
from typing import Any, Dict, List, Optional, Tuple
from . import front, smt
from .front import OutsideSubset, ContractError
from .smt import T, parse_T, Ref, Dyn, Flt, Int, Bool, Str
from .values import *
from .state import *
from .interp import *


def loop_ordinals(fn_node) -> Dict[int, int]:
    """Pre-order ordinal of every `for` statement and comprehension-free loop in a function (nested defs excluded)."""
    out, n = {}, [0]

    def walk(stmts):
        for s in stmts:
            if isinstance(s, (ast.FunctionDef, ast.ClassDef, ast.Lambda)):
                continue
            if isinstance(s, (ast.For, ast.While)):
                out[id(s)] = n[0]
                n[0] += 1
            for f in ("body", "orelse", "finalbody"):
                if hasattr(s, f):
                    walk(getattr(s, f))
            if isinstance(s, ast.Try):
                for h in s.handlers:
                    walk(h.body)

    walk(fn_node.body if hasattr(fn_node, "body") and isinstance(fn_node.body, list) else [])
    return out


def assigned_names(stmts) -> List[str]:
    names = []

    def tgt(t):
        if isinstance(t, ast.Name):
            if t.id not in names:
                names.append(t.id)
        elif isinstance(t, (ast.Tuple, ast.List)):
            for e in t.elts:
                tgt(e)
        elif isinstance(t, ast.Starred):
            tgt(t.value)

    class V(ast.NodeVisitor):
        def visit_Assign(self, n):
            for t in n.targets:
                tgt(t)
            self.generic_visit(n)

        def visit_AugAssign(self, n):
            tgt(n.target)
            self.generic_visit(n)

        def visit_AnnAssign(self, n):
            tgt(n.target)
            self.generic_visit(n)

        def visit_For(self, n):
            tgt(n.target)
            self.generic_visit(n)

        def visit_FunctionDef(self, n):
            pass

        def visit_Lambda(self, n):
            pass

        def visit_Call(self, n):
            # x.append(...) mutates the local x when x holds a value-typed sequence
            if isinstance(n.func, ast.Attribute) and n.func.attr in ("append", "update", "extend") and isinstance(n.func.value, ast.Name):
                if n.func.value.id not in names:
                    names.append(n.func.value.id)
            self.generic_visit(n)

        def visit_Subscript(self, n):
            if isinstance(n.ctx, ast.Store) and isinstance(n.value, ast.Name) and n.value.id not in names:
                names.append(n.value.id)
            self.generic_visit(n)

    for s in stmts:
        V().visit(s)
    return names


class ExecMixin:
    # ================================================================= statements
    def exec_block(self, st: State, stmts):
        for s in stmts:
            self.exec_stmt(st, s)

    def exec_stmt(self, st: State, s):
        m = getattr(self, "st_" + type(s).__name__, None)
        if m is None:
            raise OutsideSubset(f"statement {type(s).__name__}")
        m(st, s)

    def st_Expr(self, st, s):
        if isinstance(s.value, ast.Constant):
            return
        self.ev(st, s.value)

    def st_Pass(self, st, s):
        pass

    def st_Import(self, st, s):
        for a in s.names:
            st.frame.env[a.asname or a.name.split(".")[0]] = ModuleVal(a.name)

    def st_ImportFrom(self, st, s):
        raise OutsideSubset("import inside function")

    def st_Return(self, st, s):
        raise ReturnSig(self.ev(st, s.value) if s.value is not None else NONE)

    def st_Break(self, st, s):
        raise BreakSig()

    def st_Continue(self, st, s):
        raise ContinueSig()

    def st_Assert(self, st, s):
        c = self.truthy(st, self.ev(st, s.test))
        if not self.branch(st, c, "assert"):
            raise PyRaise(self.make_exc(st, "AssertionError", []))

    def st_Raise(self, st, s):
        if s.exc is None:
            if st.exc is None:
                raise OutsideSubset("bare raise outside handler")
            raise PyRaise(st.exc)
        v = self.ev(st, s.exc)
        if isinstance(v, ClassVal):
            v = self.call(st, v, [], {})
        if isinstance(v, ExcVal):
            raise PyRaise(v)
        if isinstance(v, HeapRef):
            o = st.obj(v)
            raise PyRaise(ExcVal(o.cls, payload=v))
        raise OutsideSubset(f"raise of {v!r}")

    def make_exc(self, st, cls, args) -> ExcVal:
        o = HeapObj("obj", cls, {"args": PyTuple(args)})
        if cls in ("UnexpectedCharacters", "UnexpectedEOF", "UnexpectedInput", "UnexpectedToken"):
            # lark.exceptions.UnexpectedInput carries a position (line/column; -1 for an unexpected end of input)
            o.fields["line"] = zint(st.fresh("exc_line", Int))
            o.fields["column"] = zint(st.fresh("exc_column", Int))
            o.fields["char"] = Opaque("exc.char")
            o.fields["considered_rules"] = Opaque("exc.considered_rules")
        if cls == "VisitError":
            o.fields["orig_exc"] = Opaque("exc.orig_exc")
            o.fields["rule"] = Opaque("exc.rule")
        if cls == "ResultAttemptError":
            o.fields["error"] = st.alloc(self._mk_obj(st, "Err", {"_value": Opaque("attempted.error")}))
        if cls == "FileNotFoundError":
            o.fields["filename"] = Opaque("exc.filename")
        ref = st.alloc(o)
        return ExcVal(cls, args, ref)

    def st_If(self, st, s):
        c = self.truthy(st, self.ev(st, s.test))
        if self.branch(st, c, f"if@{self.loc(s)}"):
            self.exec_block(st, s.body)
        else:
            self.exec_block(st, s.orelse)

    def loc(self, node):
        # stable-ish label: not a line number in obligation names; only used for replay labels/trails
        return f"{getattr(node, 'lineno', 0)}"

    def st_Assign(self, st, s):
        v = self.ev(st, s.value)
        for t in s.targets:
            self.assign(st, t, v)

    def st_AnnAssign(self, st, s):
        if s.value is not None:
            self.assign(st, s.target, self.ev(st, s.value))

    def st_AugAssign(self, st, s):
        load = self._as_load(s.target)
        cur = self.ev(st, load)
        rhs = self.ev(st, s.value)
        cur_f = self.force(st, cur)
        if isinstance(s.op, ast.Add) and isinstance(cur_f, HeapRef) and st.obj(cur_f).kind == "list":
            # list += iterable mutates in place
            items = self.concrete_items(st, rhs)
            if items is None:
                raise OutsideSubset("list += symbolic")
            st.obj(cur_f).items.extend(items)
            return
        v = self.binop(st, s.op, cur, rhs)
        self.assign(st, s.target, v)

    def _as_load(self, t):
        import copy
        t2 = copy.copy(t)
        t2.ctx = ast.Load()
        return t2

    def assign(self, st, t, v):
        if isinstance(t, ast.Name):
            st.frame.env[t.id] = v
        elif isinstance(t, ast.Attribute):
            o = self.force(st, self.ev(st, t.value))
            if not isinstance(o, HeapRef):
                raise OutsideSubset(f"attribute store on {o!r}")
            # a snapshot handed to a contract by value stays what it was; the next by-value use takes a new snapshot
            st.frozen.pop(o.id, None)
            st.obj(o).fields[t.attr] = v
        elif isinstance(t, ast.Subscript):
            self.assign_subscript(st, t, v)
        elif isinstance(t, (ast.Tuple, ast.List)):
            items = self.concrete_items(st, v)
            if items is None:
                items = self.symbolic_unpack(st, v, t)
            star = [i for i, e in enumerate(t.elts) if isinstance(e, ast.Starred)]
            if not star:
                if len(items) != len(t.elts):
                    raise PyRaise(self.make_exc(st, "ValueError", []))
                for e, x in zip(t.elts, items):
                    self.assign(st, e, x)
            else:
                k = star[0]
                after = len(t.elts) - k - 1
                if len(items) < len(t.elts) - 1:
                    raise PyRaise(self.make_exc(st, "ValueError", []))
                for e, x in zip(t.elts[:k], items[:k]):
                    self.assign(st, e, x)
                mid = items[k: len(items) - after]
                self.assign(st, t.elts[k].value, st.alloc(HeapObj("list", "list", items=list(mid))))
                for e, x in zip(t.elts[k + 1:], items[len(items) - after:]):
                    self.assign(st, e, x)
        else:
            raise OutsideSubset(f"assignment target {type(t).__name__}")

    def symbolic_unpack(self, st, v, t):
        if isinstance(v, Z) and v.t.kind == "tuple":
            srt, mk, accs = smt.tuple_sort(tuple(a.z3sort() for a in v.t.args))
            return [Z(a, accs[i](v.e)) for i, a in enumerate(v.t.args)]
        if isinstance(v, Z) and v.t.kind == "ref" and v.t.cls:
            m = self.classes.get(v.t.cls) or {}
            if m.get("tuplelike"):
                return [self.read_field(st, v.e, f, self.field_T(v.t.cls, f)) for f in m["tuplelike"]]
        if isinstance(v, Z) and v.t.kind == "seq" and isinstance(t, (ast.Tuple, ast.List)) \
                and not any(isinstance(e, ast.Starred) for e in t.elts):
            # a, b = <sequence of unknown length>: ValueError unless the length is exactly the number of targets
            n = len(t.elts)
            if not st.spec and not self.branch(st, z3.Length(v.e) == n, "unpack-len"):
                raise PyRaise(self.make_exc(st, "ValueError", []))
            return [Z(v.t.args[0], smt.seq_nth(v.e, z3.IntVal(i))) for i in range(n)]
        raise OutsideSubset(f"unpacking of {v!r}")

    def assign_subscript(self, st, t, v):
        c = self.force(st, self.ev(st, t.value))
        k = self.ev(st, t.slice)
        if isinstance(c, HeapRef):
            o = st.obj(c)
            if o.kind == "list":
                i = const_int(k)
                if i is None:
                    raise OutsideSubset("symbolic index store on concrete list")
                o.items[i] = v
                return
            if o.kind == "dict":
                key = self.dict_key(st, k)
                if key is None:
                    raise OutsideSubset("symbolic key store on concrete dict")
                o.items[key] = v
                return
            raise OutsideSubset("subscript store on object")
        if isinstance(c, Arr):
            i = self.as_int(st, k)
            if not self.branch(st, z3.And(-c.n <= i, i < c.n), "idx"):
                raise PyRaise(self.make_exc(st, "IndexError", []))
            i2 = i if self.branch(st, i >= 0, "idxneg") else i + c.n
            self.assign(st, self._as_store(t.value), Arr(z3.Store(c.a, i2, self.as_int(st, v)), c.n))
            return
        if isinstance(c, Z) and c.t.kind == "dyn":
            key = self.to_z(st, k, T("str")).e
            m = smt.dyn_acc("DDict", 0, c.e)
            self.assign(st, self._as_store(t.value), Z(T("dyn"), smt.dyn_ctor("DDict")(z3.Store(m, key, self.to_dyn(st, v)))))
            return
        raise OutsideSubset(f"subscript store on {c!r}")

    def _as_store(self, t):
        import copy
        t2 = copy.copy(t)
        t2.ctx = ast.Store()
        return t2

    def dict_key(self, st, k):
        if isinstance(k, Z):
            s = const_str(k)
            if s is not None:
                return s
            i = const_int(k)
            if i is not None:
                return i
            return None
        if isinstance(k, Opaque):
            return "opaque:" + k.tag
        if isinstance(k, PyTuple):
            ks = [self.dict_key(st, x) for x in k.items]
            return None if any(x is None for x in ks) else tuple(ks)
        return None

    def st_FunctionDef(self, st, s):
        f = Func(s, st.frame.module, st.frame.env, st.frame.qualname + "." + s.name)
        v = f
        for d in reversed(s.decorator_list):
            v = self.apply_decorator(st, d, v)
        st.frame.env[s.name] = v

    def apply_decorator(self, st, d, v):
        name = d.func if isinstance(d, ast.Call) else d
        nm = name.id if isinstance(name, ast.Name) else (name.attr if isinstance(name, ast.Attribute) else None)
        if nm in IDENTITY_DECORATORS:
            return v
        if nm == "property":
            v.is_property = True
            return v
        dv = self.ev(st, d)
        return self.call(st, dv, [v], {})

    def st_Try(self, st, s):
        if s.finalbody:
            raise OutsideSubset("try/finally")
        try:
            self.exec_block(st, s.body)
        except PyRaise as pr:
            for h in s.handlers:
                if self.handler_matches(st, h, pr.exc):
                    if h.name:
                        st.frame.env[h.name] = pr.exc.payload if pr.exc.payload is not None else pr.exc
                    saved = st.exc
                    st.exc = pr.exc
                    try:
                        self.exec_block(st, h.body)
                    finally:
                        st.exc = saved
                    return
            raise
        else:
            self.exec_block(st, s.orelse)

    def handler_matches(self, st, h, exc: ExcVal) -> bool:
        if h.type is None:
            return True
        types = h.type.elts if isinstance(h.type, ast.Tuple) else [h.type]
        for t in types:
            n = t.id if isinstance(t, ast.Name) else (t.attr if isinstance(t, ast.Attribute) else None)
            if n is None:
                raise OutsideSubset("except type expression")
            obj = st.obj(exc.payload) if isinstance(exc.payload, HeapRef) else None
            if self.cls_is_sub(exc.cls, n, obj):
                return True
        return False

    def st_With(self, st, s):
        """the one form in scope: `with open(p) as f: x = f.read()`  ==  x = read_file(p)  (assumed external, may raise
        FileNotFoundError)"""
        if len(s.items) == 1 and isinstance(s.items[0].context_expr, ast.Call) and isinstance(s.items[0].context_expr.func, ast.Name) \
                and s.items[0].context_expr.func.id == "open" and isinstance(s.items[0].optional_vars, ast.Name) and len(s.body) == 1 \
                and isinstance(s.body[0], ast.Assign) and isinstance(s.body[0].value, ast.Call) \
                and isinstance(s.body[0].value.func, ast.Attribute) and s.body[0].value.func.attr == "read" \
                and isinstance(s.body[0].value.func.value, ast.Name) and s.body[0].value.func.value.id == s.items[0].optional_vars.id:
            c = self.contracts.get("ext:read_file")
            if c is None:
                raise OutsideSubset("with open(...) without an assumed contract for read_file")
            path = self.ev(st, s.items[0].context_expr.args[0])
            val = self.apply_contract(st, c, [path], {}, "ext:read_file")
            for t in s.body[0].targets:
                self.assign(st, t, val)
            return
        raise OutsideSubset("with statement")

    def st_While(self, st, s):
        raise OutsideSubset("while loop")

    def st_Delete(self, st, s):
        raise OutsideSubset("del")

    def st_Global(self, st, s):
        raise OutsideSubset("global")

    # ----------------------------------------------------------------- loops
    def concrete_items(self, st, v) -> Optional[list]:
        if isinstance(v, PyTuple):
            return list(v.items)
        if isinstance(v, HeapRef):
            o = st.obj(v)
            if o.kind == "list":
                return list(o.items)
            if o.kind == "dict":
                return [self.lift_key(k) for k in o.items]
        if isinstance(v, RangeVal):
            lo, hi = z3.simplify(v.lo), z3.simplify(v.hi)
            if z3.is_int_value(lo) and z3.is_int_value(hi) and hi.as_long() - lo.as_long() <= 70:
                return [zint(i) for i in range(lo.as_long(), hi.as_long())]
        if isinstance(v, Z) and v.t.kind == "str":
            s = const_str(v)
            if s is not None:
                return [zstr(c) for c in s]
        return None

    def lift_key(self, k):
        if isinstance(k, tuple):
            return PyTuple([self.lift_key(x) for x in k])
        return self.lift(k)

    def symbolic_iter(self, st, v):
        """-> (length term, elem(k) -> value) for symbolic iterables."""
        v = self.force(st, v)
        if isinstance(v, RangeVal):
            n = z3.If(v.hi - v.lo > 0, v.hi - v.lo, 0)
            return n, (lambda k: zint(v.lo + k))
        if isinstance(v, Z) and v.t.kind == "seq":
            et = v.t.args[0]
            return z3.Length(v.e), (lambda k: Z(et, smt.seq_nth(v.e, k)))
        if isinstance(v, Z) and v.t.kind == "dyn":
            alts = [(smt.dyn_is("DList", v.e), "list"), (smt.dyn_is("DStr", v.e), "str"),
                    (z3.Not(z3.Or(smt.dyn_is("DList", v.e), smt.dyn_is("DStr", v.e))), "other")]
            which = self.pick(st, alts, "dyn-iter")
            if which == "list":
                s = smt.dyn_acc("DList", 0, v.e)
                return z3.Length(s), (lambda k: Z(T("dyn"), smt.seq_nth(s, k)))
            if which == "str":
                s = smt.dyn_acc("DStr", 0, v.e)
                return z3.Length(s), (lambda k: Z(T("char"), smt.seq_nth(s, k)))
            raise PyRaise(self.make_exc(st, "TypeError", []))
        if isinstance(v, Arr):
            return v.n, (lambda k: zint(v.a[k]))
        raise OutsideSubset(f"iteration over {v!r}")

    def st_For(self, st, s):
        if s.orelse:
            raise OutsideSubset("for/else")
        it = self.ev(st, s.iter)
        it = self.force(st, it)
        items = self.concrete_items(st, it)
        fr = st.frame
        ordinal = getattr(fr, "loop_map", {}).get(id(s))
        if items is not None:
            for x in items:
                self.assign(st, s.target, x)
                try:
                    self.exec_block(st, s.body)
                except ContinueSig:
                    continue
                except BreakSig:
                    break
            return
        spec = None
        c = getattr(fr, "contract", None)
        if c is not None and ordinal is not None:
            spec = c.loops.get(ordinal)
        if spec is None:
            raise OutsideSubset(f"loop {ordinal} of {fr.qualname} over a symbolic iterable needs an invariant")
        if spec.over is not None and spec.over.replace(" ", "") != ast.unparse(s.iter).replace(" ", ""):
            raise OutsideSubset(f"anchor-mismatch: loop {ordinal} of {fr.qualname} iterates over `{ast.unparse(s.iter)}`, contract says `{spec.over}`")
        n, elem = self.symbolic_iter(st, it)
        q = self.current_target if len(st.frames) <= 2 else fr.module + ":" + fr.qualname
        # locals declared with a sort are converted (concrete list -> seq) before the cut
        declared = (c.options.get(f"loop{ordinal}_locals") or {}) if c is not None else {}
        for nm, ts in declared.items():
            if nm in fr.env and not ts.startswith("opt["):
                fr.env[nm] = self.to_z(st, fr.env[nm], parse_T(ts))

        def inv_at(k, tag):
            out = []
            for j, lam in enumerate(spec.invariants):
                val = self.eval_lambda_spec(st, lam, [zint(k)], fr)
                out.append((f"{q}#{tag}[{ordinal}.{j}]", self.truthy(st, val)))
            return out

        for name, g in inv_at(z3.IntVal(0), "inv-init"):
            self.oblige(st, name, g, "inv-init")
        mode = st.ch.choose(2, f"loop{ordinal}")
        # havoc
        targets = [x for x in assigned_names(s.body) if x in fr.env]
        if "__yields__" in fr.env and any(isinstance(x, ast.Yield) for b in s.body for x in ast.walk(b)):
            targets.append("__yields__")
        for nm in targets:
            if nm in declared and declared[nm].startswith("opt["):
                fr.env[nm] = self.fresh_of(st, parse_T(declared[nm]), nm)
            else:
                fr.env[nm] = self.havoc_value(st, fr.env[nm], nm)
        mods = spec.modifies or (c.modifies if c is not None else [])
        for mexpr in mods:
            self.havoc_location(st, mexpr, fr)
        if mode == 0:
            k = st.fresh("it", Int)
            st.assume(z3.And(0 <= k, k < n))
            st.index_terms.append(k)
            for name, g in inv_at(k, "inv"):
                st.assume(g)
            st.trail.append(f"loop{ordinal}:body")
            self.assign(st, s.target, elem(k))
            st.ghost.setdefault("__it", []).append(k)
            try:
                self.exec_block(st, s.body)
            except ContinueSig:
                pass
            except BreakSig:
                st.ghost["__it"].pop()
                return
            st.ghost["__it"].pop()
            for name, g in inv_at(k + 1, "inv-step"):
                self.oblige(st, name, g, "inv-step")
            raise PathEnd()
        else:
            st.trail.append(f"loop{ordinal}:exit({ast.unparse(s.iter)[:30]})")
            for name, g in inv_at(n, "inv"):
                st.assume(g)

    def havoc_value(self, st, v, name):
        if isinstance(v, Z):
            return Z(v.t, st.fresh(name, v.e.sort()))
        if isinstance(v, Arr):
            return Arr(st.fresh(name + "_a", z3.ArraySort(Int, Int)), st.fresh(name + "_n", Int))
        if isinstance(v, (Func, ClassVal, Builtin, ModuleVal)):
            return v
        if v is NONE:
            raise OutsideSubset(f"loop-carried local `{name}` is None before the loop: declare its sort in the loop spec (loopN_locals)")
        if isinstance(v, Opaque):
            return Opaque(v.tag + "'")
        if isinstance(v, PyTuple):
            return PyTuple([self.havoc_value(st, x, name) for x in v.items])
        raise OutsideSubset(f"cannot havoc local `{name}` = {v!r} at a loop cut (declare its sort in the loop spec)")

    def havoc_location(self, st, mexpr, fr):
        if not isinstance(mexpr, ast.Attribute):
            raise ContractError("modifies entries must be obj.field")
        saved = st.spec
        st.spec += 1
        try:
            o = self.ev_in(st, mexpr.value, fr)
        finally:
            st.spec = saved
        if not isinstance(o, HeapRef):
            raise ContractError(f"modifies: {ast.unparse(mexpr)} is not a heap location")
        obj = st.obj(o)
        cur = obj.fields.get(mexpr.attr)
        ft = self.field_T(obj.cls, mexpr.attr)
        if ft is not None:
            obj.fields[mexpr.attr] = self.fresh_of(st, ft, mexpr.attr)
        elif cur is not None:
            obj.fields[mexpr.attr] = self.havoc_value(st, cur, mexpr.attr)
        else:
            raise ContractError(f"modifies: unknown field {ast.unparse(mexpr)}")

    def ev_in(self, st, node, fr):
        """evaluate in a given frame"""
        st.frames.append(fr)
        try:
            return self.ev(st, node)
        finally:
            st.frames.pop()

    def eval_lambda_spec(self, st, lam, args, fr, extra=None):
        env = dict(fr.env)
        if isinstance(lam, ast.Lambda):
            for a, v in zip(lam.args.args, args):
                env[a.arg] = v
            body = lam.body
        else:
            body = lam
        if extra:
            env.update(extra)
        f2 = Frame(env, fr.module, fr.qualname)
        f2.contract = getattr(fr, "contract", None)
        f2.spec_module = getattr(fr, "spec_module", None)
        st.frames.append(f2)
        st.spec += 1
        try:
            return self.ev(st, body)
        finally:
            st.spec -= 1
            st.frames.pop()

    def fresh_of(self, st, t: T, name="v"):
        t = self.resolve_T(t)
        k = t.kind
        if k in ("int", "bool", "str", "ref", "dyn", "float", "seq"):
            z = Z(t, st.fresh(name, t.z3sort()))
            return z
        if k == "char":
            return Z(t, st.fresh(name, Int))
        if k == "arr":
            n = st.fresh(name + "_n", Int)
            st.assume(n >= 0)       # a list has a non-negative length
            return Arr(st.fresh(name + "_a", z3.ArraySort(Int, Int)), n)
        if k in ("none", "unit"):
            return NONE
        if k == "any":
            return Opaque(name)
        if k == "opt":
            b = st.fresh(name + "_isnone", Bool)
            return Union([(b, NONE), (z3.Not(b), self.fresh_of(st, t.args[0], name))])
        if k == "tuple":
            return PyTuple([self.fresh_of(st, a, f"{name}_{i}") for i, a in enumerate(t.args)])
        if k == "heap":
            return self.fresh_heap_obj(st, t.cls, name)
        if k == "maybe":
            b = st.fresh(name + "_is_some", Bool)
            some = st.alloc(self._mk_obj(st, "Some", {"_value": self.fresh_of(st, t.args[0], name + "_val")}))
            nothing = st.alloc(self._mk_obj(st, "Nothing", {}))
            return Union([(b, some), (z3.Not(b), nothing)])
        if k == "result":
            b = st.fresh(name + "_is_ok", Bool)
            ok = st.alloc(self._mk_obj(st, "Ok", {"_value": self.fresh_of(st, t.args[0], name + "_ok")}))
            er = st.alloc(self._mk_obj(st, "Err", {"_value": self.fresh_of(st, t.args[1], name + "_err")}))
            return Union([(b, ok), (z3.Not(b), er)])
        raise ContractError(f"cannot make a fresh value of sort {t}")

    def _mk_obj(self, st, cls, fields):
        o = HeapObj("obj", cls, fields)
        return o

    def fresh_heap_obj(self, st, cls, name):
        m = self.classes.get(cls)
        if m is None:
            raise ContractError(f"no class model for heap class {cls}")
        o = HeapObj("obj", cls, {})
        o.symbolic = True
        ref = st.alloc(o)
        c = cls
        chain = []
        while c:
            mm = self.classes.get(c)
            if mm is None:
                break
            chain.append(mm)
            c = mm.get("base")
        for mm in reversed(chain):
            for f, ts in list(mm.get("fields", {}).items()) + list(mm.get("ghost", {}).items()):
                o.fields[f] = self.fresh_of(st, parse_T(ts), f"{name}.{f}")
        return ref
