"""C16: decoding a strict prefix of a valid encoding raises - as a ghost client of the real encode() and decode()."""


@theorem("theorems:C16_prefix")
def c16_prefix(fcp: "ref:FcpV2", name: "str", v: "dyn", d2: "arr"):
    """d2 is any byte string; if it is a strict prefix of encode(fcp, name, v), decode(fcp, name, d2) does not return"""
    option("module", "fcp.serde")
    option("opaque", ["wire_struct", "conforms_struct", "starts_struct", "wf_struct", "is_prefix"])
    requires(wf_struct(fcp, name) and conforms_struct(fcp, name, v))
    may_raise(Exception)
    ensures(result)
    ghost_arg("decode", v=v, fb=bits_of_bytes(data))
    data = encode(fcp, name, v)
    if arr_len(d2) < arr_len(data) and forall(0, arr_len(d2), lambda q: arr_get(d2, q) == arr_get(data, q)):
        rep_unpack(data, wire_struct(fcp, name, v))
        rt_struct(fcp, name, v, seq_empty("int"), pad_of(data, wire_struct(fcp, name, v)))
        unpack_same(d2, data, arr_len(d2))
        unpack_mono(data, arr_len(d2), arr_len(data))
        decode(fcp, name, d2)
        return False
    return True
