"""C09 theorems: the verdict of the real verify() over the really registered checks equals the specification."""


@theorem("theorems:C09_general")
def c09_general(fcp: "ref:FcpV2"):
    option("module", "fcp.verifier")
    option("inline_calls", ["fcp.verifier:Verifier.verify"])
    option("opaque", ["missing_service"])
    hint(0)
    ensures(result.is_ok() == wf_general(fcp))
    ensures(result.is_err() == (not wf_general(fcp)))
    use_lemma(flat_all_1(fcp))
    use_lemma(flat_all_2(fcp, len(fcp.structs)))
    v = make_general_verifier()
    return v.verify(fcp)


@theorem("theorems:C09_dbc")
def c09_dbc(fcp: "ref:FcpV2"):
    option("module", "fcp.verifier")
    option("inline_calls", ["fcp.verifier:Verifier.verify"])
    option("opaque", ["missing_service"])
    hint(0)
    option("imports", {"DbcGenerator": "fcp_dbc.generator:Generator"})
    ensures(result.is_ok() == (wf_general(fcp) and wf_dbc(fcp)))
    ensures(result.is_err() == (not (wf_general(fcp) and wf_dbc(fcp))))
    use_lemma(flat_all_1(fcp))
    use_lemma(flat_all_2(fcp, len(fcp.structs)))
    v = make_general_verifier()
    DbcGenerator().register_checks(v)
    return v.verify(fcp)
