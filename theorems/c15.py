"""C15 for the Python codec, as a statement about two schemas: the bytes the real encode() returns are the same under a schema
and its declaration-permuted twin (ghost client of encode() through its contract + the twin lemmas)."""


@theorem("theorems:C15_twin")
def c15_twin(f1: "ref:FcpV2", f2: "ref:FcpV2", name: "str", v: "dyn"):
    option("module", "fcp.serde")
    option("opaque", ["conforms_struct"])
    requires(twin(f1, f2) and conforms_struct(f1, name, v) and conforms_struct(f2, name, v))
    ensures(arr_len(result[0]) == arr_len(result[1])
            and forall(0, arr_len(result[0]), lambda q: arr_get(result[0], q) == arr_get(result[1], q)))
    hint(name)
    a = encode(f1, name, v)
    b = encode(f2, name, v)
    twin_fields(f1, f2, sorted_fields(struct_of(f1, name)), v, len(sorted_fields(struct_of(f1, name))))
    rep_unique(a, b, wire_struct(f1, name, v))
    return (a, b)
