"""C01: decode(encode(v)) == v, as a ghost client of the real encode()/decode() through their contracts."""


@theorem("theorems:C01_roundtrip")
def c01_roundtrip(fcp: "ref:FcpV2", name: "str", v: "dyn"):
    option("module", "fcp.serde")
    option("opaque", ["wire_struct", "conforms_struct", "starts_struct", "wf_struct"])
    requires(wf_struct(fcp, name) and conforms_struct(fcp, name, v))
    ensures(result == v)
    ghost_arg("decode", v=v)
    data = encode(fcp, name, v)
    rep_unpack(data, wire_struct(fcp, name, v))
    rt_struct(fcp, name, v, seq_empty("int"), pad_of(data, wire_struct(fcp, name, v)))
    return decode(fcp, name, data)
